#!/venv/bin/python
"""Sensitivity self-test: apply each mutant to a scratch copy of /repo/src (outside /repo
and /verif), run the quick check of its property against the copy, expect exit 1.

    selftest/run.py [name-prefix ...] [--cases N] [--suite]

--suite additionally runs the repository's own test-suite on the mutant (survives = the
mutant is invisible to the existing tests).  The scratch copy is removed afterwards.
"""
import os, shutil, subprocess, sys, tempfile, time, json
HERE = os.path.dirname(os.path.abspath(__file__))
ROOT = os.path.dirname(HERE)
sys.path.insert(0, HERE)
from mutants import MUTANTS  # noqa: E402

# reverting a repair is a mutant too (the pinned tree passes the baseline suite): (name, grep pattern of the fix commit subject)
REVERTS = [
    ("C01_revertfix_F1", "never select an already selected"), ("C06_revertfix_F2", "VoronoiFPS accepts n_to_select=None"),
    ("C08_revertfix_F3", "warm-started CUR keeps"), ("C05_revertfix_F4", "uses the train-train kernel"),
    ("C05_revertfix_F5", "centers the test-test kernel"), ("C10_revertfix_F7", "rank cutoff relative"), ("C10_revertfix_F8", "predictions and targets to the scorer"),
    ("C13_revertfix_F9", "reconstruction distortion works"), ("C09_revertfix_F10", "does not scale the cutoff array"),
    ("C09_revertfix_F11", "does not normalise the weights"), ("C09_revertfix_F12", "refitted without y after"),
    ("C09_revertfix_F13", "refitted on a kernel of a"), ("C17_revertfix_F14", "effdim handles singular"),
    ("C17_revertfix_F15", "fspread localisation calls"), ("C17_revertfix_F16", "bound the OAS shrinkage"),
    ("C17_revertfix_F17", "scores queries near a grid point"), ("C03_revertfix_F18", "PCovR with regressor='precomputed' accepts"),
    ("C05_revertfix_F19", "KernelPCovR with regressor='precomputed' handles"),
    ("C19_revertfix_F20", "ignores numerically vertical facets"),
]
for _n, _g in REVERTS:
    MUTANTS.append((_n, "@revert", _g, ""))

def main():
    args = [a for a in sys.argv[1:] if not a.startswith("--")]
    suite = "--suite" in sys.argv
    cases = None
    for a in sys.argv[1:]:
        if a.startswith("--cases="):
            cases = a.split("=")[1]
    sel = [m for m in MUTANTS if not args or any(m[0].startswith(p) for p in args)]
    out = []
    for name, rel, old, new in sel:
        import re; prop = re.match(r"C\d+", name).group(0)
        tmp = tempfile.mkdtemp(prefix="vfmut_", dir="/tmp")
        try:
            shutil.copytree("/repo/src", os.path.join(tmp, "src"))
            if suite:
                shutil.copytree("/repo/tests", os.path.join(tmp, "tests"))
                shutil.copy("/repo/pyproject.toml", tmp)
            if rel == "@revert":
                sha = subprocess.run(["git", "-C", "/repo", "log", "--format=%H", "--fixed-strings", "--grep", old], capture_output=True, text=True).stdout.split()
                if len(sha) != 1:
                    out.append((name, "NOT-APPLICABLE(commits=%d)" % len(sha), 0)); print(out[-1]); continue
                diff = subprocess.run(["git", "-C", "/repo", "show", "--format=", sha[0]], capture_output=True, text=True).stdout
                pr = subprocess.run(["patch", "-R", "-p1", "-d", tmp, "--no-backup-if-mismatch"], input=diff, capture_output=True, text=True)
                if pr.returncode != 0:
                    out.append((name, "NOT-APPLICABLE(patch -R failed)", 0)); print(out[-1], pr.stdout[-300:]); continue
            else:
                p = os.path.join(tmp, "src", "skmatter", rel)
                s = open(p).read()
                if s.count(old) != 1:
                    out.append((name, "NOT-APPLICABLE(count=%d)" % s.count(old), 0)); print(out[-1]); continue
                open(p, "w").write(s.replace(old, new))
            env = dict(os.environ, VERIF_REPO=tmp)
            t = time.time()
            cmd = [os.path.join(ROOT, "check"), prop, "--no-evidence"]
            if cases:
                cmd += ["--cases", cases]
            r = subprocess.run(cmd, env=env, capture_output=True, text=True)
            verdict = {0: "MISSED", 1: "caught", 2: "HARNESS-ERROR"}.get(r.returncode, "rc=%d" % r.returncode)
            first = [l for l in r.stdout.splitlines() if l.startswith("  problem")][:1]
            sv = ""
            if suite:
                e2 = dict(os.environ, OMP_NUM_THREADS="1", PYTHONPATH=os.path.join(tmp, "src"))
                r2 = subprocess.run(["/venv/bin/python", "-m", "pytest", "-q", "-rf", "-p", "no:cacheprovider", "tests"],
                                    cwd=tmp, env=e2, capture_output=True, text=True)
                # three tests of test_sample_simple_cur.py need the network and fail on the unchanged tree too
                failed = [l.split()[1] for l in r2.stdout.splitlines() if l.startswith(("FAILED", "ERROR"))]
                failed = [f for f in failed if not f.startswith("tests/test_sample_simple_cur.py::TestCUR::")]
                sv = "suite:" + ("survives" if not failed else "killed(%d)" % len(failed))
            out.append((name, verdict, round(time.time() - t, 1), sv, first[0].strip()[:150] if first else ""))
            print(out[-1], flush=True)
            if r.returncode == 2:
                print(r.stderr[-1500:])
            # replays written by a mutant run are not findings: remove them
            for l in r.stdout.splitlines():
                if l.startswith("VIOLATION") and "replay=" in l:
                    rp = l.split("replay=")[1].strip()
                    if "/replays/" in rp and os.path.exists(rp):
                        os.remove(rp)
        finally:
            shutil.rmtree(tmp, ignore_errors=True)
    # mutants that do not violate the stated property (documented in DESIGN.md): surviving is the expected outcome
    f3 = ("with repair F1 in place (selected items are masked out of every argmax) the revert of F3 changes nothing but the stored score of "
          "already selected items after a warm start, which no later step reads; C08 compares pi_ on the unselected items (DESIGN 8.4)")
    allowed = {"C13_lre_desc": "C13 never states which neighbours LRE uses", "C08_revert_F3": f3, "C08_revertfix_F3": f3}
    missed = [o for o in out if o[1] != "caught" and o[0] not in allowed]
    for o in out:
        if o[0] in allowed:
            print("note: %s %s - not required (%s)" % (o[0], o[1], allowed[o[0]]))
    print("mutants: %d, caught: %d, not caught: %s" % (len(out), len(out) - len(missed), [o[0] for o in missed]))
    return 1 if missed else 0

if __name__ == "__main__":
    sys.exit(main())

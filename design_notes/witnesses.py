"""Minimal reproducers for the defects listed in DESIGN.md section 3 (F1..F17, K1..K3).

Not part of the verification framework: a design-phase note.  Run with the
interpreter that has scikit-matter importable, e.g.

    /venv/bin/python design_notes/witnesses.py            # pinned tree: all 20 reproduce
    PYTHONPATH=<tree with fixes>/src /venv/bin/python design_notes/witnesses.py   # only K1..K3

Each witness prints one line `<id> REPRODUCED: <what>` or `<id> ok`.
"""
import os
import warnings

import numpy as np

os.environ.setdefault("TQDM_DISABLE", "1")
warnings.simplefilter("ignore")

from skmatter import feature_selection as fs  # noqa: E402
from skmatter import sample_selection as ss  # noqa: E402

rng = np.random.default_rng(0)
RESULTS = []


def witness(name):
    def deco(f):
        try:
            msg = f()
        except Exception as e:  # the defect may show up as an exception
            msg = f"raised {type(e).__name__}: {str(e)[:80]}"
        RESULTS.append((name, msg))
        print(f"{name} REPRODUCED: {msg}" if msg else f"{name} ok")
        return f

    return deco


@witness("F1")
def _():
    X = np.repeat(np.array([[0.0, 0.0], [1.0, 0.0], [0.0, 2.0]]), 3, axis=0)
    idx = ss.FPS(n_to_select=9).fit(X).selected_idx_
    if len(set(idx.tolist())) != len(idx):
        return f"sample FPS on 9 rows / 3 distinct selects {idx.tolist()}"


@witness("F2")
def _():
    X = np.random.default_rng(1).normal(size=(10, 4))
    ss.VoronoiFPS(n_to_select=None).fit(X)
    ss.VoronoiFPS(n_to_select=0.5).fit(X)


@witness("F3")
def _():
    X = np.random.default_rng(0).normal(size=(10, 6))
    cold = fs.CUR(n_to_select=4, recompute_every=0).fit(X)
    warm = fs.CUR(n_to_select=2, recompute_every=0).fit(X)
    warm.n_to_select = 4
    warm.fit(X, warm_start=True)
    if not np.array_equal(cold.selected_idx_, warm.selected_idx_) or not np.allclose(
        cold.pi_, warm.pi_
    ):
        return f"cold {cold.selected_idx_.tolist()} warm {warm.selected_idx_.tolist()}, max |dpi| {np.abs(cold.pi_ - warm.pi_).max():.3g}"


def _kpcovr_data():
    r = np.random.default_rng(2)
    X = r.normal(size=(12, 4))
    X -= X.mean(0)
    Y = r.normal(size=(12, 2))
    Y -= Y.mean(0)
    return X, Y, r.normal(size=(5, 4)), r.normal(size=(5, 2))


@witness("F4")
def _():
    from skmatter.decomposition import KernelPCovR

    X, Y, Xv, Yv = _kpcovr_data()
    k = KernelPCovR(mixing=0.5, n_components=2, kernel="rbf", gamma=0.5).fit(X, Y)
    k.score(Xv, Yv)


@witness("F5")
def _():
    from skmatter.decomposition import KernelPCovR

    X, Y, Xv, Yv = _kpcovr_data()
    k = KernelPCovR(mixing=0.5, n_components=2, kernel="rbf", gamma=0.5, center=True)
    k.fit(X, Y).score(Xv, Yv)


def _ridge_data(scale=1.0):
    r = np.random.default_rng(2)
    X = r.normal(size=(20, 3))
    X = np.hstack([X, X[:, :2]]) * scale
    y = X @ r.normal(size=(5, 2)) / scale + 0.1 * r.normal(size=(20, 2))
    return X, y


@witness("F6")
def _():
    from skmatter.linear_model import Ridge2FoldCV

    X, y = _ridge_data()
    m = Ridge2FoldCV(
        alphas=[0.0, 0.5],
        alpha_type="relative",
        regularization_method="cutoff",
        shuffle=False,
    ).fit(X, y)
    c = np.abs(m.coef_).max()
    if c > 1e6:
        return f"max |coef_| = {c:.3g} for duplicated columns"


@witness("F7")
def _():
    from skmatter.linear_model import Ridge2FoldCV

    X, y = _ridge_data(1e6)
    m = Ridge2FoldCV(
        alphas=[0.0, 0.5],
        alpha_type="relative",
        regularization_method="cutoff",
        shuffle=False,
    ).fit(X, y)
    c = np.abs(m.coef_).max() * 1e6
    if c > 1e6:
        return f"max |coef_|*scale = {c:.3g} for duplicated columns scaled by 1e6"


@witness("F8")
def _():
    from sklearn.metrics import r2_score
    from sklearn.model_selection import KFold

    from skmatter.linear_model import Ridge2FoldCV

    X, y = _ridge_data()
    m = Ridge2FoldCV(alphas=[1.0], scoring="r2", shuffle=False).fit(X, y)
    tr, te = next(KFold(2, shuffle=False).split(X))

    def ridge(a, b):
        return np.linalg.solve(a.T @ a + np.eye(a.shape[1]), a.T @ b)

    exp = (
        r2_score(y[te], X[te] @ ridge(X[tr], y[tr]))
        + r2_score(y[tr], X[tr] @ ridge(X[te], y[te]))
    ) / 2
    if abs(m.cv_values_[0] - exp) > 1e-9:
        return f"cv_values_ {m.cv_values_[0]:.6f} vs explicit r2 {exp:.6f}"


@witness("F9")
def _():
    from skmatter.metrics import global_reconstruction_distortion

    r = np.random.default_rng(2)
    global_reconstruction_distortion(r.normal(size=(30, 5)), r.normal(size=(30, 3)))


@witness("F10")
def _():
    from skmatter.clustering import QuickShift

    cuts = np.array([1.0, 2.0, 3.0])
    QuickShift(cuts, scale=2.0)
    if not np.array_equal(cuts, [1.0, 2.0, 3.0]):
        return f"caller's cut-offs became {cuts.tolist()}"


@witness("F11")
def _():
    from skmatter.neighbors import SparseKDE

    w = np.array([1.0, 2.0, 3.0, 4.0])
    SparseKDE(np.random.default_rng(2).normal(size=(4, 2)), w)
    if not np.array_equal(w, [1.0, 2.0, 3.0, 4.0]):
        return f"caller's weights became {w.tolist()}"


@witness("F12")
def _():
    r = np.random.default_rng(21)
    s = ss.FPS(n_to_select=3).fit(r.normal(size=(12, 6)), r.normal(size=12))
    s.fit(r.normal(size=(8, 5)))


@witness("F13")
def _():
    from skmatter.preprocessing import KernelNormalizer

    r = np.random.default_rng(22)
    A, B = r.normal(size=(12, 6)), r.normal(size=(8, 4))
    KernelNormalizer().fit(A @ A.T).fit(B @ B.T)


@witness("F14")
def _():
    from skmatter.utils import effdim

    v = effdim(np.diag([2.0, 1.0, 0.0]))
    if not np.isfinite(v):
        return f"effdim(diag(2,1,0)) = {v}"


@witness("F15")
def _():
    from skmatter.neighbors import SparseKDE

    D = 0.3 * np.random.default_rng(20).normal(size=(30, 2))
    SparseKDE(D, None, fspread=0.5).fit(D[:5].copy())


@witness("F16")
def _():
    from skmatter.utils import oas

    h = oas(np.full((3, 3), 1.3), 1.3, 3)  # rank one, trace 3.9
    e = np.linalg.eigvalsh(h).min()
    if e <= 0:
        return f"oas(1.3 * ones(3,3), n=1.3) has eigenvalue {e:.3g}"


@witness("F17")
def _():
    from skmatter.neighbors import SparseKDE

    D = np.random.default_rng(1).normal(size=(40, 2))
    grid = np.vstack([D[:4], [[8.0, 8.0]]])
    SparseKDE(D, None, fpoints=0.3).fit(grid).score_samples(np.array([[8.1, 8.2]]))


@witness("K1")
def _():
    X = np.random.default_rng(0).normal(size=(8, 6))
    full = ss.FPS(n_to_select=5).fit(X)
    d = full.get_select_distance()
    thr = (d[2] + d[3]) / 2
    s = ss.FPS(n_to_select=5, score_threshold=thr).fit(X)
    if len(s.selected_idx_) != s.n_selected_:
        return f"n_selected_={s.n_selected_}, X_selected_ has {s.X_selected_.shape[0]} rows, selected_idx_={s.selected_idx_.tolist()}"


@witness("K2")
def _():
    v = ss.VoronoiFPS(n_to_select=3)
    before = v.get_params()["full_fraction"]
    v.fit(np.random.default_rng(2).normal(size=(50, 3)))
    after = v.get_params()["full_fraction"]
    if before != after:
        return f"full_fraction {before} -> {after}"


@witness("K3")
def _():
    from skmatter.neighbors import SparseKDE

    r = np.random.default_rng(3)
    D = r.normal(size=(40, 2))
    grid = D[:6].copy()
    cell = np.array([9.0, 11.0])
    Q = r.normal(size=(3, 2))
    a = SparseKDE(D, None, metric_params={"cell_length": cell}, fpoints=0.4).fit(grid)
    shifted = grid + np.array([[1, 0], [0, -1], [2, 1], [0, 0], [-1, 1], [1, 1]]) * cell
    b = SparseKDE(D, None, metric_params={"cell_length": cell}, fpoints=0.4).fit(shifted)
    diff = np.abs(a.score_samples(Q) - b.score_samples(Q)).max()
    if diff > 1e-6:
        return f"log-density changes by {diff:.3g} when grid points are shifted by whole cells"


if __name__ == "__main__":
    n = sum(1 for _, m in RESULTS if m)
    print(f"{n} of {len(RESULTS)} witnesses reproduce")

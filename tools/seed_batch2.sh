#!/bin/bash
# tools/seed_batch2.sh <seed-id>... : full confirmation (demo clean/patched, suite) + related group of checks; updates meta.json
cd "$(dirname "$0")/.."
group() {
  case $1 in
    C01|C02|C06|C07|C08) echo "C01,C02,C06,C07,C08,C09";;
    C03|C04|C05|C14) echo "C03,C04,C05,C14,C09";;
    C09) echo "C09,C01,C08,C05,C12,C10,C17,C18,C20";;
    C10|C13) echo "C10,C13,C09,C11";;
    C11|C12) echo "C11,C12,C09,C05,C13";;
    C15|C16|C17) echo "C15,C16,C17,C09";;
    *) echo "$1,C09";;
  esac
}
for id in "$@"; do
  p=${id%%-*}
  tools/try_seed.py seeded/$id --props=$(group $p) | tail -1 > /tmp/seedres_$id.json
  /venv/bin/python - <<PY
import json
d=json.load(open('/tmp/seedres_$id.json'))
print('$id', 'confirmed=%s'%d.get('confirmed'), 'demo clean/patched rc=%s/%s'%(d.get('demo_clean_rc'),d.get('demo_patched_rc')), 'suite_new_failures=%s'%d.get('suite_new_failures'), 'caught_by=%s'%d.get('caught_by'))
for q,v in d['props'].items():
    if v['caught'] or v['rc']==2: print('   ',q,v['rc'],v['first_problem'][:170], v.get('stderr','')[-200:])
mp='seeded/$id/meta.json'; m=json.load(open(mp))
m['confirmed']={"demo_on_clean_tree_rc":d.get("demo_clean_rc"),"demo_on_patched_tree_rc":d.get("demo_patched_rc"),"baseline_suite_new_failures_with_patch":d.get("suite_new_failures"),"suite_summary":d.get("suite_line")}
json.dump(m,open(mp,'w'),indent=1)
PY
done

#!/bin/bash
# tools/seed_batch.sh Cxx [Cyy...] : run try_seed on /tmp/seed/Cxx/SEED/{1,2} against the related group of checks
cd "$(dirname "$0")/.."
group() {
  case $1 in
    C01|C02|C06|C07|C08) echo "C01,C02,C06,C07,C08,C09";;
    C03|C04|C05|C14) echo "C03,C04,C05,C14,C09";;
    C09) echo "C09,C01,C08,C05,C12,C10";;
    C10|C13) echo "C10,C13,C09";;
    C11|C12) echo "C11,C12,C09,C05";;
    C15|C16|C17) echo "C15,C16,C17,C09";;
    *) echo "$1,C09";;
  esac
}
for p in "$@"; do
  for k in 1 2; do
    d=/verif/seeded/$p-$k
    [ -f $d/patch.diff ] || continue
    tools/try_seed.py $d --props=$(group $p) | tail -1 > /tmp/seed/result_${p}_$k.json
    /venv/bin/python - <<PY
import json
d=json.load(open('/tmp/seed/result_${p}_$k.json'))
print('$p/$k', 'confirmed=%s'%d.get('confirmed'), 'demo clean/patched rc=%s/%s'%(d.get('demo_clean_rc'),d.get('demo_patched_rc')), 'suite_new_failures=%s'%d.get('suite_new_failures'), 'caught_by=%s'%d.get('caught_by'))
for q,v in d['props'].items():
    if v['caught'] or v['rc']==2: print('   ',q,v['rc'],v['first_problem'][:170], v.get('stderr','')[-200:])
PY
  done
done

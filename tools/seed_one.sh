#!/bin/bash
# tools/seed_one.sh <seed-id> <props,comma> : quick re-test of one seeded change (no suite run)
cd "$(dirname "$0")/.."
tools/try_seed.py seeded/$1 --props=$2 --skip-suite | tail -1 | /venv/bin/python -c "
import json,sys; d=json.loads(sys.stdin.read()); print('$1', 'caught_by=%s' % d['caught_by']); [print('   ', p, v['rc'], '%ss' % v['wall'], v['first_problem'][:170], v.get('stderr','')[-300:]) for p,v in d['props'].items()]"

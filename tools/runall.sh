#!/bin/bash
# tools/runall.sh [tier]  - run every claimed check once, print one status line each, validate evidence
cd "$(dirname "$0")/.."
tier=${1:-quick}
rc_all=0
for p in $(/venv/bin/python -c "import json; print(' '.join(c['property_id'] for c in json.load(open('MANIFEST.json'))['checks']))"); do
  s=$(date +%s)
  out=$(./check $p --tier $tier 2>&1); rc=$?
  e=$(date +%s)
  echo "$p rc=$rc $((e-s))s $(echo "$out" | grep -E "^C[0-9]+ tier" | tail -1)"
  echo "$out" | grep -E "^VIOLATION|^HARNESS|^KNOWN-FINDING" | cut -c1-160
  [ $rc -ne 0 ] && rc_all=1
done
python3-vt - <<'PY'
import json, jsonschema, glob
s = json.load(open('/root/.vp/EVIDENCE.schema.json'))
bad = 0
for f in sorted(glob.glob('evidence/*.json')):
    try:
        jsonschema.validate(json.load(open(f)), s)
    except Exception as e:
        bad += 1
        print('INVALID', f, str(e)[:200])
print('evidence files valid' if not bad else '%d invalid evidence files' % bad)
PY
exit $rc_all

#!/venv/bin/python
"""print a python file without docstrings/blank lines (reading aid)"""
import sys
for path in sys.argv[1:]:
    indoc=False
    for ln in open(path).read().split('\n'):
        s=ln.strip()
        if indoc:
            if s.endswith('"""'): indoc=False
            continue
        if s.startswith(('"""','r"""')):
            if not (s.count('"""')>=2 and len(s)>3): indoc=True
            continue
        if s=='' or s.startswith('#'): continue
        print(ln)

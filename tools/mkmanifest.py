#!/venv/bin/python
"""Regenerates /verif/MANIFEST.json from the property modules that exist.

A property is claimed iff vf/props/cNN.py exists and is listed in CLAIMS below; every other
property of properties.jsonl is listed under not_applicable with its reason.
"""
import json
import os

ROOT = os.path.dirname(os.path.dirname(os.path.abspath(__file__)))

import ast


def module_meta(pid):
    """TECHNIQUE / LEVEL / ASSUMPTIONS literals of vf/props/<pid>.py, read without importing."""
    path = os.path.join(ROOT, "vf", "props", pid.lower() + ".py")
    if not os.path.exists(path):
        return None
    out = {}
    for node in ast.parse(open(path).read()).body:
        if isinstance(node, ast.Assign) and len(node.targets) == 1 and isinstance(node.targets[0], ast.Name):
            nm = node.targets[0].id
            if nm in ("TECHNIQUE", "LEVEL", "ASSUMPTIONS", "TITLE"):
                try:
                    out[nm] = ast.literal_eval(node.value)
                except ValueError:
                    pass
    return out if "TECHNIQUE" in out and "LEVEL" in out else None


PENDING_REASON = ("check not built yet in this session - the property is decidable by generated-input search "
                  "(design in DESIGN.md section 4) and will be claimed once its module exists")


def main():
    props = [json.loads(l) for l in open(os.path.join(ROOT, "properties.jsonl"))]
    checks, na = [], []
    for p in props:
        pid = p["id"]
        meta = module_meta(pid)
        if meta is not None:
            tech, text = meta["TECHNIQUE"], meta["LEVEL"]
            note = "Trusted base: numpy/scipy/scikit-learn reference routines used by the oracle. " + "; ".join(meta.get("ASSUMPTIONS", []))
            ref = "DESIGN.md section 4, " + pid
            checks.append({
                "property_id": pid,
                "quick_cmd": "./check %s --tier quick" % pid,
                "thorough_cmd": "./check %s --tier thorough" % pid,
                "evidence_file": "evidence/%s.json" % pid,
                "replay_cmd_template": "./check %s --replay {path}" % pid,
                "engine": "vf-runner",
                "level_claimed": {"category": "exploration", "text": text, "design_ref": ref},
                "level_note": note,
                "technique": tech,
            })
        else:
            na.append({"property_id": pid, "reason": NA_REASONS.get(pid, PENDING_REASON)})
    hooks_commits = []
    man = {
        "version": 1,
        "setup_cmd": "/venv/bin/python -c 'import hypothesis' 2>/dev/null || /venv/bin/pip install --no-index "
                     "--find-links /opt/veriftools/wheels --no-deps hypothesis sortedcontainers attrs; "
                     "/venv/bin/python -c 'import hypothesis, numpy, scipy, sklearn; print(hypothesis.__version__)'",
        "hooks": {
            "guard": "SKMATTER_VERIF",
            "enable": "no source hooks: scikit-matter is pure Python and is imported from /repo/src by every check "
                      "(PYTHONPATH=/repo/src, asserted at start-up); observation uses harness-side wrappers only, so the guard is never read",
            "baseline_off_cmd": "cd /repo && OMP_NUM_THREADS=1 /venv/bin/python -m pytest -ra -q -p no:cacheprovider --timeout=900 --continue-on-collection-errors",
            "source_commits": hooks_commits,
            "add_only": True,
        },
        "engines": [{
            "name": "vf-runner", "path": "vf/runner.py",
            "serves_properties": [c["property_id"] for c in checks],
            "kind_free_text": "Hypothesis 6.168 property-based testing (composite strategies, rule-based state machines for fit histories), "
                              "16 seeded worker processes, explicit independent oracles, shrinking to a JSON replay file",
        }],
        "checks": checks,
        "not_applicable": na,
        "notes": "Every check: ./check <id> --tier quick|thorough, honours VERIF_SEED / VERIF_TIER, exit 0/1/2 (2 = harness error, never a VIOLATION line). "
                 "Known and fixed findings: known_findings.json (+ witnesses under known/).  Sensitivity self-test: selftest/run.py.  "
                 "Runner layers applied to every case of every check (except where a module opts out): memory-layout variation of input arrays (VERIF_LAYOUTS=0 off) and "
                 "object-lifecycle variation of every skmatter estimator call -- decoy clone fit on the same buffers, same-instance prefit and queries, pickle / deepcopy "
                 "state round-trip, query-twice (vf/lifecycle.py, VERIF_LIFECYCLE=0 off; C17 opts out, DESIGN.md 8.8).",
    }
    with open(os.path.join(ROOT, "MANIFEST.json"), "w") as f:
        json.dump(man, f, indent=1)
    print("claimed:", [c["property_id"] for c in checks], "not claimed:", [n["property_id"] for n in na])


NA_REASONS = {}

if __name__ == "__main__":
    main()

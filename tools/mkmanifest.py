#!/venv/bin/python
"""Regenerates /verif/MANIFEST.json from the property modules that exist.

A property is claimed iff vf/props/cNN.py exists and is listed in CLAIMS below; every other
property of properties.jsonl is listed under not_applicable with its reason.
"""
import json
import os

ROOT = os.path.dirname(os.path.dirname(os.path.abspath(__file__)))

# per property: (technique, level text, level note, design ref)
CLAIMS = {
    "C15": (
        "Hypothesis property-based testing against a brute-force minimum-image oracle plus metric-law and metamorphic relations",
        "Generated-input exploration: thousands of point sets per run (1-6 dimensions, anisotropic cells, coordinates up to 1e4 cells "
        "away, exact half-cell ties, integer image shifts, SPD precision stacks) are judged against an independent fractional-reduction "
        "oracle and the metric laws (symmetry, triangle inequality over all triples, bounds, squared flag, sklearn equality, rejection "
        "of a mismatched cell).  No absence claim; strength = number of distinct non-trivial cases in the evidence.",
        "Trusts numpy arithmetic and sklearn's euclidean_distances (the property names it as the reference); tolerance 1e-11*(max|coord|+|cell|).",
        "DESIGN.md section 4, C15"),
}

PENDING_REASON = ("check not built yet in this session - the property is decidable by generated-input search "
                  "(design in DESIGN.md section 4) and will be claimed once its module exists")


def main():
    props = [json.loads(l) for l in open(os.path.join(ROOT, "properties.jsonl"))]
    checks, na = [], []
    for p in props:
        pid = p["id"]
        have = os.path.exists(os.path.join(ROOT, "vf", "props", pid.lower() + ".py"))
        if have and pid in CLAIMS:
            tech, text, note, ref = CLAIMS[pid]
            checks.append({
                "property_id": pid,
                "quick_cmd": "./check %s --tier quick" % pid,
                "thorough_cmd": "./check %s --tier thorough" % pid,
                "evidence_file": "evidence/%s.json" % pid,
                "replay_cmd_template": "./check %s --replay {path}" % pid,
                "engine": "vf-runner",
                "level_claimed": {"category": "exploration", "text": text, "design_ref": ref},
                "level_note": note,
                "technique": tech,
            })
        else:
            na.append({"property_id": pid, "reason": NA_REASONS.get(pid, PENDING_REASON)})
    hooks_commits = []
    man = {
        "version": 1,
        "setup_cmd": "/venv/bin/python -c 'import hypothesis' 2>/dev/null || /venv/bin/pip install --no-index "
                     "--find-links /opt/veriftools/wheels --no-deps hypothesis sortedcontainers attrs; "
                     "/venv/bin/python -c 'import hypothesis, numpy, scipy, sklearn; print(hypothesis.__version__)'",
        "hooks": {
            "guard": "SKMATTER_VERIF",
            "enable": "no source hooks: scikit-matter is pure Python and is imported from /repo/src by every check "
                      "(PYTHONPATH=/repo/src, asserted at start-up); observation uses harness-side wrappers only, so the guard is never read",
            "baseline_off_cmd": "cd /repo && OMP_NUM_THREADS=1 /venv/bin/python -m pytest -ra -q -p no:cacheprovider --timeout=900 --continue-on-collection-errors",
            "source_commits": hooks_commits,
            "add_only": True,
        },
        "engines": [{
            "name": "vf-runner", "path": "vf/runner.py",
            "serves_properties": [c["property_id"] for c in checks],
            "kind_free_text": "Hypothesis 6.168 property-based testing (composite strategies, rule-based state machines for fit histories), "
                              "16 seeded worker processes, explicit independent oracles, shrinking to a JSON replay file",
        }],
        "checks": checks,
        "not_applicable": na,
        "notes": "Every check: ./check <id> --tier quick|thorough, honours VERIF_SEED / VERIF_TIER, exit 0/1/2 (2 = harness error, never a VIOLATION line). "
                 "Known and fixed findings: known_findings.json (+ witnesses under known/).  Sensitivity self-test: selftest/run.py.",
    }
    with open(os.path.join(ROOT, "MANIFEST.json"), "w") as f:
        json.dump(man, f, indent=1)
    print("claimed:", [c["property_id"] for c in checks], "not claimed:", [n["property_id"] for n in na])


NA_REASONS = {}

if __name__ == "__main__":
    main()

#!/venv/bin/python
"""tools/seed_matrix.py [--full] [ids...] : every seeded change against the checks, on scratch copies of /repo (removed afterwards).

For each seeded/<id>: demo on the clean copy / on the patched copy, then the check of the seed's own property; only if that
one stays quiet the related group of checks (same groups as tools/seed_batch2.sh) is run as well.  With --full the group is
always run.  Writes seeded/RESULTS.jsonl (one line per seed) and prints a summary.  The repository's own test-suite is not
re-run here: that part of the confirmation is recorded in every meta.json ("confirmed").
"""
import json
import os
import subprocess
import sys

ROOT = os.path.dirname(os.path.dirname(os.path.abspath(__file__)))
GROUPS = [
    (("C01", "C02", "C06", "C07", "C08"), ["C01", "C02", "C06", "C07", "C08", "C09"]),
    (("C03", "C04", "C05", "C14"), ["C03", "C04", "C05", "C14", "C09"]),
    (("C09",), ["C09", "C01", "C08", "C05", "C12", "C10", "C17", "C18", "C20"]),
    (("C10", "C13"), ["C10", "C13", "C09", "C11"]),
    (("C11", "C12"), ["C11", "C12", "C09", "C05", "C13"]),
    (("C15", "C16", "C17"), ["C15", "C16", "C17", "C09"]),
]


def group(p):
    for keys, g in GROUPS:
        if p in keys:
            return g
    return [p, "C09"]


def key(sid):
    p, k = sid.split("-")
    return (p, int(k))


def main():
    full = "--full" in sys.argv
    ids = [a for a in sys.argv[1:] if not a.startswith("--")]
    explicit = bool(ids)
    if not ids:
        ids = sorted((d for d in os.listdir(os.path.join(ROOT, "seeded")) if os.path.isdir(os.path.join(ROOT, "seeded", d)) and "-" in d), key=key)
    vs = os.environ.get("VERIF_SEED", "1") or "1"
    out_path = os.path.join(ROOT, "seeded", "RESULTS.jsonl" if vs == "1" else "RESULTS.seed%s.jsonl" % vs)    # VERIF_SEED is passed on to the checks
    lines = []
    if explicit and os.path.exists(out_path):          # explicit ids: update those lines only
        lines = [json.loads(l) for l in open(out_path) if json.loads(l)["id"] not in ids]
    for sid in ids:
        d = os.path.join(ROOT, "seeded", sid)
        meta = json.load(open(os.path.join(d, "meta.json")))
        p = meta["property"]
        def run(props):
            r = subprocess.run([os.path.join(ROOT, "tools", "try_seed.py"), d, "--props=" + ",".join(props), "--skip-suite"], capture_output=True, text=True)
            return json.loads(r.stdout.strip().splitlines()[-1])
        res = run([p])
        if full or not res.get("caught_by"):
            rest = [q for q in group(p) if q != p]
            r2 = run(rest)
            res["props"].update(r2["props"])
            res["caught_by"] = sorted(q for q, v in res["props"].items() if v["caught"])
        rec = {"id": sid, "property": p, "required": meta.get("required", True), "demo_clean_rc": res.get("demo_clean_rc"),
               "demo_patched_rc": res.get("demo_patched_rc"), "patch_applied": res.get("patch_applied"), "caught_by": res.get("caught_by"),
               "checks": {q: {"rc": v["rc"], "first_problem": v["first_problem"]} for q, v in res["props"].items()}}
        lines.append(rec)
        print("%s required=%s demo=%s/%s caught_by=%s" % (sid, rec["required"], rec["demo_clean_rc"], rec["demo_patched_rc"], rec["caught_by"]), flush=True)
        lines.sort(key=lambda r: key(r["id"]))
        with open(out_path, "w") as f:
            for r in lines:
                f.write(json.dumps(r, sort_keys=True) + "\n")
    req = [r for r in lines if r["required"]]
    missed = [r["id"] for r in req if not r["caught_by"]]
    own = sum(1 for r in req if r["property"] in (r["caught_by"] or []))
    print("seeds: %d, required: %d, caught: %d (by the check of their own property: %d), missed: %s" % (len(lines), len(req), len(req) - len(missed), own, missed))
    return 1 if missed else 0


if __name__ == "__main__":
    sys.exit(main())

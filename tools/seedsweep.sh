#!/bin/bash
# tools/seedsweep.sh "<seeds>" [tier] ["<properties>"] : every claimed check at several VERIF_SEED values on the unchanged tree; any rc != 0 is printed
cd "$(dirname "$0")/.."
seeds=${1:-"2 3 4 5 6 7 8 9 10 11"}; tier=${2:-quick}; props=$3
bad=0
for s in $seeds; do
  for p in ${props:-$(/venv/bin/python -c "import json; print(' '.join(c['property_id'] for c in json.load(open('MANIFEST.json'))['checks']))")}; do
    out=$(VERIF_SEED=$s ./check $p --tier $tier --no-evidence 2>&1); rc=$?
    if [ $rc -ne 0 ]; then bad=$((bad+1)); echo "SEED=$s $p rc=$rc"; echo "$out" | grep -E "problem|VIOLATION|HARNESS|Error" | head -5; 
      for f in $(echo "$out" | grep -o "replay=[^ ]*" | cut -d= -f2); do mkdir -p sweep_failures; cp $f sweep_failures/ 2>/dev/null; done
    fi
  done
  echo "seed $s done (failures so far: $bad)"
done
echo "SWEEP FINISHED failures=$bad"

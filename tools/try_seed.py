#!/venv/bin/python
"""tools/try_seed.py <seed_dir> [--props C01,C05 | --all] [--tier quick] [--skip-suite]

Confirms a seeded change (patch.diff + demo.py) and runs checks against it, on a scratch copy of
/repo's working tree outside /repo and /verif (removed afterwards):
  1. demo.py on the clean copy        -> must exit 0
  2. apply patch.diff, demo.py again   -> must exit non-zero
  3. the repository's own test-suite on the patched copy -> no failure beyond the 3 network tests
  4. ./check <property> with VERIF_REPO=<copy>  -> exit 1 means the check catches the seed
Prints a JSON summary on the last line.
"""
import json
import os
import shutil
import subprocess
import sys
import tempfile
import time

ROOT = os.path.dirname(os.path.dirname(os.path.abspath(__file__)))
NETWORK = "tests/test_sample_simple_cur.py::TestCUR::"


def run(cmd, env=None, cwd=None, inp=None, timeout=3600):
    return subprocess.run(cmd, env=env, cwd=cwd, input=inp, capture_output=True, text=True, timeout=timeout)


def main():
    args = [a for a in sys.argv[1:] if not a.startswith("--")]
    seed = os.path.abspath(args[0])
    tier = "quick"
    props = None
    for a in sys.argv[1:]:
        if a.startswith("--props="):
            props = a.split("=")[1].split(",")
        if a.startswith("--tier="):
            tier = a.split("=")[1]
    allp = "--all" in sys.argv
    meta = {}
    mp = os.path.join(seed, "meta.json")
    if os.path.exists(mp):
        meta = json.load(open(mp))
    if props is None:
        props = [meta["property"]] if "property" in meta else []
    if allp:
        props = [c["property_id"] for c in json.load(open(os.path.join(ROOT, "MANIFEST.json")))["checks"]]
    tmp = tempfile.mkdtemp(prefix="vfseed_", dir="/tmp")
    out = {"seed": seed, "props": {}}
    try:
        for d in ("src", "tests"):
            shutil.copytree(os.path.join("/repo", d), os.path.join(tmp, d))
        shutil.copy("/repo/pyproject.toml", tmp)
        env = dict(os.environ, OMP_NUM_THREADS="1", PYTHONPATH=os.path.join(tmp, "src"), TQDM_DISABLE="1")
        demo = os.path.join(seed, "demo.py")
        r = run(["/venv/bin/python", demo], env=env, cwd=tmp)
        out["demo_clean_rc"] = r.returncode
        patch = open(os.path.join(seed, "patch.diff")).read()
        pr = run(["patch", "-p1", "-d", tmp, "--no-backup-if-mismatch"], inp=patch)
        out["patch_applied"] = pr.returncode == 0
        if pr.returncode != 0:
            out["patch_msg"] = pr.stdout[-400:]
            print(json.dumps(out))
            return 2
        r = run(["/venv/bin/python", demo], env=env, cwd=tmp)
        out["demo_patched_rc"] = r.returncode
        if "--skip-suite" not in sys.argv:
            r = run(["/venv/bin/python", "-m", "pytest", "-q", "-rf", "-p", "no:cacheprovider", "tests"], env=env, cwd=tmp)
            failed = [l.split()[1] for l in r.stdout.splitlines() if l.startswith(("FAILED", "ERROR"))]
            out["suite_new_failures"] = [f for f in failed if not f.startswith(NETWORK)]
            out["suite_line"] = (r.stdout.strip().splitlines() or [""])[-1]
        for p in props:
            t = time.time()
            e2 = dict(os.environ, VERIF_REPO=tmp)
            r = run([os.path.join(ROOT, "check"), p, "--tier", tier, "--no-evidence"], env=e2)
            first = [l.strip() for l in r.stdout.splitlines() if l.startswith("  problem")][:1]
            out["props"][p] = {"rc": r.returncode, "caught": r.returncode == 1, "wall": round(time.time() - t, 1),
                               "first_problem": first[0][:220] if first else ""}
            if r.returncode == 2:
                out["props"][p]["stderr"] = r.stderr[-600:]
            for l in r.stdout.splitlines():
                if l.startswith("VIOLATION") and "replay=" in l:
                    rp = l.split("replay=")[1].strip()
                    out["props"][p]["replay"] = rp
                    if "--keep-replays" not in sys.argv and "/replays/" in rp and os.path.exists(rp):
                        os.remove(rp)
    finally:
        shutil.rmtree(tmp, ignore_errors=True)
    out["confirmed"] = out.get("demo_clean_rc") == 0 and out.get("demo_patched_rc", 0) != 0 and not out.get("suite_new_failures")
    out["caught_by"] = sorted(p for p, v in out["props"].items() if v["caught"])
    print(json.dumps(out))
    return 0


if __name__ == "__main__":
    sys.exit(main())

#!/venv/bin/python
"""tools/mkcatchtable.py : markdown summary of seeded/RESULTS.jsonl (which checks catch which seeded changes), for DESIGN.md 8.6."""
import collections
import json
import os

ROOT = os.path.dirname(os.path.dirname(os.path.abspath(__file__)))
rows = [json.loads(l) for l in open(os.path.join(ROOT, "seeded", "RESULTS.jsonl"))]
by = collections.defaultdict(list)
for r in rows:
    by[r["property"]].append(r)
print("| property | seeded changes | required | caught by its own check | caught only by other checks | not required | missed |")
print("|---|---|---|---|---|---|---|")
tot = collections.Counter()
for p in sorted(by):
    rs = by[p]
    req = [r for r in rs if r["required"]]
    own = [r for r in req if p in (r["caught_by"] or [])]
    other = [r for r in req if r["caught_by"] and p not in r["caught_by"]]
    missed = [r for r in req if not r["caught_by"]]
    nreq = [r for r in rs if not r["required"]]
    tot.update(n=len(rs), req=len(req), own=len(own), other=len(other), missed=len(missed), nreq=len(nreq))
    print("| %s | %d | %d | %d | %s | %s | %s |" % (
        p, len(rs), len(req), len(own),
        ", ".join("%s (%s)" % (r["id"], "/".join(r["caught_by"])) for r in other) or "-",
        ", ".join(r["id"] for r in nreq) or "-", ", ".join(r["id"] for r in missed) or "-"))
print("| **all** | %d | %d | %d | %d | %d | %d |" % (tot["n"], tot["req"], tot["own"], tot["other"], tot["nreq"], tot["missed"]))

#!/venv/bin/python
"""tools/addfixed.py <property> <id> <commit> <witness> <what failed>  - append a 'fixed' entry."""
import json, sys, os
ROOT = os.path.dirname(os.path.dirname(os.path.abspath(__file__)))
p = os.path.join(ROOT, "known_findings.json")
d = json.load(open(p))
prop, fid, commit, witness, what = sys.argv[1:6]
d["findings"] = [e for e in d["findings"] if e["id"] != fid]
d["findings"].append({"status": "fixed", "property": prop, "id": fid, "commit": commit, "what": what, "witness": witness,
                      "line": "fixed: property=%s %s %s" % (prop, commit, what)})
json.dump(d, open(p, "w"), indent=1)

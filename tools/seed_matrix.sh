#!/bin/bash
# tools/seed_matrix.sh [--all] : every seeded change against its related group of checks (or all 20); writes seeded/RESULTS.jsonl
cd "$(dirname "$0")/.."
group() {
  case $1 in
    C01|C02|C06|C07|C08) echo "C01,C02,C06,C07,C08,C09";;
    C03|C04|C05|C14) echo "C03,C04,C05,C14,C09";;
    C09) echo "C09,C01,C08,C05,C12,C10,C17,C18,C20";;
    C10|C13) echo "C10,C13,C09,C11";;
    C11|C12) echo "C11,C12,C09,C05,C13";;
    C15|C16|C17) echo "C15,C16,C17,C09";;
    *) echo "$1,C09";;
  esac
}
: > seeded/RESULTS.jsonl
for d in seeded/C*-*; do
  id=$(basename $d); p=${id%%-*}
  if [ "$1" = "--all" ]; then extra="--all"; else extra="--props=$(group $p)"; fi
  tools/try_seed.py $d $extra | tail -1 >> seeded/RESULTS.jsonl
  tail -1 seeded/RESULTS.jsonl | /venv/bin/python -c "
import json,sys; d=json.loads(sys.stdin.read()); print('$id confirmed=%s caught_by=%s' % (d.get('confirmed'), d.get('caught_by')))"
done

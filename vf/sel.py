"""Shared helpers for the selector properties (C01, C02, C06, C07, C08)."""

import warnings

import numpy as np
from hypothesis import strategies as st

from skmatter import feature_selection as FS
from skmatter import sample_selection as SS
from vf import gen

CLASSES = ["FPS", "CUR", "PCovFPS", "PCovCUR"]


def n_items(X, direction):
    return X.shape[0] if direction == "sample" else X.shape[1]


def native(req):
    """Requests drawn as NumPy integers are stored in the case as 0-d arrays (the codec keeps their dtype): hand the estimator a
    NumPy scalar."""
    if isinstance(req, np.ndarray) and req.ndim == 0:
        return req.dtype.type(req)
    return req


def narrow(draw, X, y, params):
    """Post-processing of a 'narrowint' case: the targets become integers of a narrow type too and params["_dtypes"] records the
    dtypes in which X and y are handed to fit (see make)."""
    if y is not None:
        lo, hi = gen.NARROW_RANGES[draw(st.sampled_from(["int8", "uint8"]))]
        y = gen.rng_of(draw).integers(lo, hi + 1, size=np.shape(y)).astype(float)
    params["_dtypes"] = [gen.narrow_dtype(X), None if y is None else gen.narrow_dtype(y)]
    if "recompute_every" in params:
        # the CUR family treats residual norms below the documented absolute `tolerance` as zero: with entries up to 1e3 the rounding
        # noise of an orthogonalised column (~1e-10) must stay below it (DESIGN 3.x, same precondition as for the other kinds)
        params["tolerance"] = 1e-8
    return y


def make(cls, direction, **params):
    if "n_to_select" in params:
        params["n_to_select"] = native(params["n_to_select"])
    dtypes = params.pop("_dtypes", None)
    if dtypes is not None:
        est = make(cls, direction, **params)
        fit0 = est.fit

        def fit(X, y=None, *a, **kw):
            X = np.asarray(X).astype(dtypes[0]) if dtypes[0] else X
            y = np.asarray(y).astype(dtypes[1]) if (y is not None and dtypes[1]) else y
            return fit0(X, y, *a, **kw)
        est.fit = fit
        return est
    if cls == "VoronoiFPS":
        return SS.VoronoiFPS(**params)
    mod = SS if direction == "sample" else FS
    return getattr(mod, cls)(**params)


def resolve_request(req, N):
    """Number of selections the code resolves a request to (int(N*f) for a fraction)."""
    if req is None:
        return N // 2
    if isinstance(req, (int, np.integer)) or (isinstance(req, np.ndarray) and req.dtype.kind in "iu"):
        return int(req)
    return int(N * req)


class Recorder:
    """Harness-side wrapper around selector.score(): records a copy of the scores
    the selector saw at every step of fit, with the number of selections made so far."""

    def __init__(self, selector):
        self.sel = selector
        self.calls = []          # (n_selected_ at call, scores copy)
        self._orig = selector.score
        selector.score = self._wrapped

    def _wrapped(self, X, y=None):
        s = self._orig(X, y)
        self.calls.append((int(getattr(self.sel, "n_selected_", 0)), np.array(s, dtype=float, copy=True)))
        return s

    def reset(self):
        self.calls = []

    def detach(self):
        try:
            del self.sel.score
        except AttributeError:
            pass


def fit_recorded(sel, X, y, warm=False):
    """Fit; returns (warning_messages, exception or None)."""
    with warnings.catch_warnings(record=True) as w:
        warnings.simplefilter("always")
        try:
            if warm:
                sel.fit(X, y, warm_start=True)
            else:
                sel.fit(X, y)
        except Exception as e:  # noqa: BLE001 - caller decides what it means
            return [str(x.message) for x in w], e
    return [str(x.message) for x in w], None


def threshold_warned(msgs):
    return any(m.startswith("Score threshold of") for m in msgs)


# ----------------------------------------------------------------------------
# brute-force distance oracles
# ----------------------------------------------------------------------------
def fps_D(X, direction):
    """Squared Euclidean distances between items, by explicit differences."""
    Z = X if direction == "sample" else X.T
    d = Z[:, None, :] - Z[None, :, :]
    return (d ** 2).sum(-1)


def pcov_M(X, y, mixing, direction):
    """Independent construction of the PCovR-modified Gram (samples) or covariance
    (features) matrix.  Returns (M, ambiguous) where ambiguous is True when an
    eigenvalue of X^T X lies in the grey zone of the documented 1e-12 cut-off."""
    y = np.asarray(y, float).reshape(len(X), -1)
    if direction == "sample":
        return mixing * (X @ X.T) + (1 - mixing) * (y @ y.T), False
    C = X.T @ X
    w, U = np.linalg.eigh(C)
    # kept-or-grey by the absolute 1e-12 rule, yet numerically null relative to the largest
    # eigenvalue (badly scaled data): the result then depends on rounding noise
    amb = bool(np.any((w > 1e-14) & (w < max(1e-10, 1e-9 * w.max()))))
    keep = w > 1e-12
    Cis = (U[:, keep] / np.sqrt(w[keep])) @ U[:, keep].T
    Z = Cis @ (X.T @ y)
    return mixing * C + (1 - mixing) * (Z @ Z.T), amb


def D_from_M(M):
    dg = np.diag(M)
    return dg[:, None] + dg[None, :] - 2 * M


# ----------------------------------------------------------------------------
# strategies
# ----------------------------------------------------------------------------
def draw_shape(draw, tier, lo=2, quick=(12, 10), thorough=(40, 24)):
    hi = quick if tier == "quick" else thorough
    return draw(st.integers(lo, hi[0])), draw(st.integers(lo, hi[1]))


def draw_request(draw, N, minimum=1, forms=("none", "int", "float")):
    """A request n_to_select whose resolved value is >= minimum (constructed, not filtered).
    Returns the request; fractions are (j+0.5)/N so that int(N*f) == j robustly."""
    forms = list(forms)
    if N // 2 < minimum and "none" in forms:
        forms.remove("none")
    form = draw(st.sampled_from(forms))
    if form == "none":
        return None
    j = draw(st.integers(minimum, N))
    if form == "int":
        # a count is a count whatever integer type carries it
        t = draw(st.sampled_from(["int", "int", "int", "int32", "int64"]))
        return j if t == "int" else np.array(j, dtype=t)
    if j == N:
        return 1.0
    return (j + 0.5) / N


def draw_y(draw, n, X=None):
    mode = draw(st.sampled_from(["normal", "lattice", "linear"]))
    if mode == "normal" or X is None:
        return gen.normal(draw, (n,))
    if mode == "lattice":
        return gen.lattice(draw, (n,))
    w = gen.normal(draw, (X.shape[1],))
    return X @ w + 0.1 * gen.normal(draw, (n,))

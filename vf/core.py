"""Core data structures shared by the runner and the property modules.

A property module (vf/props/cNN.py) exposes

    ID, TITLE, RULE, ASSUMPTIONS
    BUDGET   = {"quick": cases_per_worker, "thorough": cases_per_worker}
    WATCHDOG = {"quick": seconds, "thorough": seconds}          (optional)
    strategy(tier) -> hypothesis strategy of JSON-able `case` dicts
                      (numpy arrays allowed, see codec below)
    check(case, ctx)   executes the oracle; reports through ctx
    summarize(case) -> small JSON-able description (optional)
    known_filter(case, problems, active) -> (unexplained, [known ids])  (optional)
    exhaustive(tier) -> iterable of cases enumerated completely     (optional)
    machine(tier, evaluate) -> RuleBasedStateMachine class          (optional,
                      replaces `strategy`; the machine records a history and
                      calls evaluate(case) once, in teardown)
"""

import contextlib
import hashlib
import json
import traceback

import numpy as np


# ----------------------------------------------------------------------------
# codec: case <-> JSON (bit exact: Python float repr round-trips)
# ----------------------------------------------------------------------------
def encode(obj):
    if isinstance(obj, np.ndarray):
        return {"__nd__": str(obj.dtype), "shape": list(obj.shape), "data": obj.tolist()}
    if isinstance(obj, (np.floating,)):
        return float(obj)
    if isinstance(obj, (np.integer,)):
        return int(obj)
    if isinstance(obj, (np.bool_,)):
        return bool(obj)
    if isinstance(obj, dict):
        return {str(k): encode(v) for k, v in obj.items()}
    if isinstance(obj, tuple):
        return {"__tuple__": [encode(v) for v in obj]}
    if isinstance(obj, list):
        return [encode(v) for v in obj]
    return obj


def decode(obj):
    if isinstance(obj, dict):
        if "__nd__" in obj:
            a = np.array(obj["data"], dtype=obj["__nd__"])
            return a.reshape(obj["shape"])
        if "__tuple__" in obj:
            return tuple(decode(v) for v in obj["__tuple__"])
        return {k: decode(v) for k, v in obj.items()}
    if isinstance(obj, list):
        return [decode(v) for v in obj]
    return obj


def vary_layout(a, salt=0):
    """'For every input' includes the memory layout of the caller's arrays.  Returns `a` unchanged (50 %), a Fortran-ordered copy
    (25 %) or a non-contiguous strided view into a larger buffer (25 %); which one is a deterministic function of the array's
    shape and leading bytes (and `salt`), so a replayed case sees the same layouts.  Values are identical."""
    import zlib
    if not isinstance(a, np.ndarray) or a.dtype.kind not in "fiub" or a.ndim not in (1, 2) or a.size == 0:
        return a
    mode = zlib.crc32(repr((a.shape, salt)).encode() + np.ascontiguousarray(a).tobytes()[:256]) % 4
    if mode < 2:
        return a
    if mode == 2:
        return np.asfortranarray(a).copy(order="F") if a.ndim == 2 else a.copy()
    if a.ndim == 1:
        big = np.zeros(2 * len(a), dtype=a.dtype)
        big[::2] = a
        return big[::2]
    big = np.zeros((a.shape[0] + 1, 2 * a.shape[1]), dtype=a.dtype)
    big[1:, ::2] = a
    return big[1:, ::2]


def layout_name(a):
    if not isinstance(a, np.ndarray) or a.ndim != 2:
        return "other"
    if a.flags.c_contiguous:
        return "C"
    return "F" if a.flags.f_contiguous else "strided"


def canonical(case):
    return json.dumps(encode(case), sort_keys=True, separators=(",", ":"))


def case_hash(case):
    return hashlib.sha1(canonical(case).encode()).hexdigest()[:16]


def brief(obj, maxel=24):
    """Human-readable, size-bounded rendering of a case for evidence samples."""
    if isinstance(obj, np.ndarray):
        if obj.size <= maxel:
            return {"shape": list(obj.shape), "values": np.round(obj.astype(float), 6).tolist()
                    if obj.dtype.kind == "f" else obj.tolist()}
        flat = obj.ravel()[:6]
        return {"shape": list(obj.shape), "first": np.round(flat.astype(float), 6).tolist()
                if obj.dtype.kind == "f" else flat.tolist(), "truncated": True}
    if isinstance(obj, dict):
        return {str(k): brief(v, maxel) for k, v in obj.items()}
    if isinstance(obj, (list, tuple)):
        if len(obj) > 12:
            return [brief(v, maxel) for v in obj[:12]] + ["...(%d)" % len(obj)]
        return [brief(v, maxel) for v in obj]
    if isinstance(obj, np.generic):
        return obj.item()
    if isinstance(obj, float):
        return float("%.6g" % obj) if np.isfinite(obj) else repr(obj)
    return obj


# ----------------------------------------------------------------------------
# result reporting
# ----------------------------------------------------------------------------
class StopCheck(Exception):
    """Raised by ctx.lib() after a library exception was recorded as a problem."""


class Inconclusive(Exception):
    """Raised by the watchdog."""


class Ctx:
    """Collects what one execution of check(case) found."""

    def __init__(self, tier="quick", active_known=()):
        self.tier = tier
        self.active_known = tuple(active_known)
        self.problems = []      # list of {"sub":..., "msg":...}
        self.classes = []       # class labels for the distribution
        self.skipped = []       # reasons sub-checks were skipped (gap/ambiguous)
        self.counts = {}        # numeric counters (steps judged, comparisons, ...)
        self.nontrivial = False
        self.info = {}

    # -- reporting -----------------------------------------------------------
    def fail(self, sub, msg="", **data):
        p = {"sub": sub, "msg": str(msg)[:600]}
        if data:
            p["data"] = encode(data)
        self.problems.append(p)

    def cls(self, *labels):
        for lab in labels:
            self.classes.append(str(lab))

    def skip(self, reason):
        self.skipped.append(str(reason))

    def count(self, name, n=1):
        self.counts[name] = self.counts.get(name, 0) + int(n)

    # -- comparisons ---------------------------------------------------------
    def close(self, sub, a, b, tol, what=""):
        """|a-b| <= tol elementwise (tol absolute, computed by the caller from
        the inputs).  NaN anywhere is a failure."""
        a = np.asarray(a, dtype=float)
        b = np.asarray(b, dtype=float)
        if a.shape != b.shape:
            self.fail(sub, "%s shape %s != %s" % (what, a.shape, b.shape))
            return False
        if a.size == 0:
            return True
        d = np.abs(a - b)
        if not np.all(np.isfinite(a)) or not np.all(np.isfinite(b)):
            same = np.array_equal(np.isnan(a), np.isnan(b)) and np.array_equal(
                np.isinf(a), np.isinf(b))
            if not same or np.isnan(a).any():
                self.fail(sub, "%s non-finite values" % what)
                return False
            d = np.where(np.isfinite(a), d, 0.0)
        m = float(d.max())
        if not m <= tol:
            self.fail(sub, "%s max|diff|=%.3e > tol=%.3e" % (what, m, tol))
            return False
        return True

    def equal(self, sub, a, b, what=""):
        a = np.asarray(a)
        b = np.asarray(b)
        if a.shape != b.shape or not np.array_equal(a, b):
            self.fail(sub, "%s %s != %s" % (what, _short(a), _short(b)))
            return False
        return True

    def true(self, sub, cond, msg=""):
        if not cond:
            self.fail(sub, msg)
            return False
        return True

    # -- library calls -------------------------------------------------------
    @contextlib.contextmanager
    def lib(self, where):
        """Wrap a call into the library whose input is inside the property's
        domain: an exception is a problem, and the check stops."""
        try:
            yield
        except (Inconclusive, StopCheck):
            raise
        except Exception as e:  # noqa: BLE001 - the contract is "must not raise"
            self.fail("exception:" + where, "%s: %s @ %s" % (
                type(e).__name__, str(e)[:200], innermost_frame(e)))
            raise StopCheck() from None

    @contextlib.contextmanager
    def rejects(self, where, exc=ValueError):
        """Wrap a call that the property says must be rejected."""
        try:
            yield
        except exc:
            return
        except (Inconclusive, StopCheck):
            raise
        except Exception as e:  # noqa: BLE001
            self.fail("wrong-exception:" + where, "%s: %s" % (type(e).__name__, str(e)[:200]))
            return
        self.fail("not-rejected:" + where, "call succeeded but must raise %s" % exc.__name__)


def _short(a):
    s = np.array2string(np.asarray(a), threshold=20, edgeitems=4, precision=6)
    return s.replace("\n", " ")[:200]


def innermost_frame(e, package="skmatter"):
    tb = traceback.extract_tb(e.__traceback__)
    hit = None
    for fr in tb:
        if ("/" + package + "/") in fr.filename:
            hit = fr
    if hit is None:
        hit = tb[-1] if tb else None
    if hit is None:
        return "?"
    fn = hit.filename.split("/" + package + "/")[-1]
    return "%s:%s:%s" % (fn, hit.name, hit.lineno)


def exc_site(e, package="skmatter"):
    """(type name, innermost package function) used for bucketing."""
    fr = innermost_frame(e, package)
    parts = fr.split(":")
    return type(e).__name__, ":".join(parts[:2])

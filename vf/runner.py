"""Runner: ./check Cxx [--tier quick|thorough] [--replay FILE] [--workers N] [--cases N]

Exit 0  every explored case satisfied the property (known findings excepted)
Exit 1  + line "VIOLATION property=<id> replay=<path>"
Exit 2  harness error (never a VIOLATION line)
"""

import argparse
import collections
import importlib
import json
import multiprocessing as mp
import os
import signal
import sys
import time
import traceback
import warnings

import numpy as np

ROOT = os.path.dirname(os.path.dirname(os.path.abspath(__file__)))
REPO = os.environ.get("VERIF_REPO", "/repo")

from vf.core import (Ctx, Inconclusive, StopCheck, brief, canonical, case_hash,  # noqa: E402
                     decode, encode)


class ViolationFound(Exception):
    pass


def relayout(case):
    """A shallow copy of the case whose numeric arrays (top level, and inside dicts / lists two levels deep) went through
    core.vary_layout: each array independently C (50 %), Fortran-ordered (25 %) or a strided view (25 %).  The stored / replayed
    case is always the original."""
    from vf.core import layout_name, vary_layout
    seen = collections.Counter()

    def conv(v, depth=0):
        if isinstance(v, np.ndarray):
            w = vary_layout(v)
            if v.ndim == 2:
                seen[layout_name(w)] += 1
            return w
        if depth < 2 and isinstance(v, dict):
            return {k: conv(x, depth + 1) for k, x in v.items()}
        if depth < 2 and isinstance(v, list):
            return [conv(x, depth + 1) for x in v]
        return v
    if not isinstance(case, dict):
        return case, seen
    return conv(case), seen


class HarnessAbort(Exception):
    pass


def load_known(prop_id):
    path = os.path.join(ROOT, "known_findings.json")
    if not os.path.exists(path):
        return []
    with open(path) as f:
        entries = json.load(f)["findings"]
    return [e for e in entries if e["property"] == prop_id]


def assert_tree():
    import skmatter
    want = os.path.realpath(os.path.join(REPO, "src"))
    got = os.path.realpath(skmatter.__file__)
    if not got.startswith(want + os.sep):
        raise RuntimeError("skmatter imported from %s, expected under %s" % (got, want))


# ----------------------------------------------------------------------------
class Harness:
    def __init__(self, mod, tier, active_known, watchdog_s, shrink_budget_s=60.0,
                 max_samples=4):
        self.mod = mod
        self.tier = tier
        self.active_known = tuple(active_known)
        self.watchdog_s = int(watchdog_s)
        self.shrink_budget_s = shrink_budget_s
        self.max_samples = max_samples
        self.evaluations = 0
        self.nontrivial = set()
        self.classes = collections.Counter()
        self.skipped = collections.Counter()
        self.counts = collections.Counter()
        self.excluded_known = collections.Counter()
        self.inconclusive = 0
        self.inconclusive_samples = []
        self.samples = []
        self.best_failure = None
        self.first_fail_time = None
        self.shrink_exhausted = False
        self.abort = False
        self.harness_error = None
        self.first_cases = []
        signal.signal(signal.SIGALRM, self._on_alarm)

    @staticmethod
    def _on_alarm(*_):
        raise Inconclusive()

    def run_check(self, case):
        ctx = Ctx(self.tier, self.active_known)
        if getattr(self.mod, "LAYOUTS", True) and os.environ.get("VERIF_LAYOUTS", "1") != "0":
            case, seen = relayout(case)
            for k, v in seen.items():
                ctx.count("arrays_layout_" + k, v)
        from vf import lifecycle
        life = getattr(self.mod, "LIFECYCLE", True) and lifecycle.enabled()
        if life:
            lifecycle.install()
            lifecycle.begin_case(case_hash(case))
        signal.alarm(self.watchdog_s)
        try:
            with warnings.catch_warnings():
                warnings.simplefilter("ignore")
                try:
                    self.mod.check(case, ctx)
                except StopCheck:
                    pass
        finally:
            signal.alarm(0)
            if life:
                for k, v in lifecycle.take_counts().items():
                    ctx.count(k, v)
                lifecycle.begin_case("")
        return ctx

    def summarize(self, case, ctx=None):
        f = getattr(self.mod, "summarize", None)
        s = f(case) if f else brief(case)
        if ctx is not None and ctx.info:
            s = dict(s) if isinstance(s, dict) else {"case": s}
            s["_observed"] = brief(ctx.info)
        return s

    def evaluate(self, case):
        if self.abort or self.shrink_exhausted:
            return
        self.evaluations += 1
        if os.environ.get("VERIF_TRACE"):
            self.first_cases.append(case_hash(case))
        try:
            ctx = self.run_check(case)
        except Inconclusive:
            self.inconclusive += 1
            if len(self.inconclusive_samples) < 2:
                self.inconclusive_samples.append(self.summarize(case))
            return
        except Exception:  # noqa: BLE001 - bug in harness/oracle: stop, exit 2
            self.abort = True
            self.harness_error = traceback.format_exc() + "\ncase: " + canonical(case)[:4000]
            raise HarnessAbort()
        for c in ctx.classes:
            self.classes[c] += 1
        for s in ctx.skipped:
            self.skipped[s] += 1
        for k, v in ctx.counts.items():
            self.counts[k] += v
        problems = ctx.problems
        if problems:
            kf = getattr(self.mod, "known_filter", None)
            hits = []
            if kf is not None and self.active_known:
                with warnings.catch_warnings():
                    warnings.simplefilter("ignore")
                    problems, hits = kf(case, problems, self.active_known)
            if not problems:
                for h in hits:
                    self.excluded_known[h] += 1
                return
        if ctx.nontrivial:
            h = case_hash(case)
            if h not in self.nontrivial:
                self.nontrivial.add(h)
                if len(self.samples) < self.max_samples:
                    self.samples.append(self.summarize(case, ctx))
        if problems:
            enc = canonical(case)
            if self.best_failure is None or len(enc) < self.best_failure["size"]:
                self.best_failure = {"size": len(enc), "case": encode(case), "problems": problems}
            now = time.time()
            if self.first_fail_time is None:
                self.first_fail_time = now
            elif now - self.first_fail_time > self.shrink_budget_s:
                self.shrink_exhausted = True
            raise ViolationFound(problems[0]["sub"] + ": " + problems[0]["msg"])

    def result(self, status, wall):
        return {
            "status": status, "wall": wall, "evaluations": self.evaluations,
            "nontrivial": sorted(self.nontrivial), "classes": dict(self.classes),
            "skipped": dict(self.skipped), "counts": dict(self.counts),
            "excluded_known": dict(self.excluded_known), "inconclusive": self.inconclusive,
            "inconclusive_samples": self.inconclusive_samples, "samples": self.samples,
            "failure": self.best_failure, "harness_error": self.harness_error,
            "first_cases": self.first_cases,
        }


def worker(args):
    (prop_id, tier, seed_base, index, nworkers, n_cases, active_known) = args
    t0 = time.time()
    import hypothesis
    from hypothesis import HealthCheck, Phase, given, seed, settings
    mod = importlib.import_module("vf.props." + prop_id.lower())
    wd = getattr(mod, "WATCHDOG", {"quick": 30, "thorough": 120})[tier]
    H = Harness(mod, tier, active_known, wd,
                shrink_budget_s=60.0 if tier == "quick" else 240.0)
    status = "ok"
    try:
        # 1. exhaustive parts, sharded by index
        ex = getattr(mod, "exhaustive", None)
        if ex is not None:
            for j, case in enumerate(ex(tier)):
                if j % nworkers == index:
                    H.evaluate(case)
        # 2. generated search
        if n_cases > 0:
            sett = settings(
                max_examples=n_cases, deadline=None, database=None, derandomize=False,
                report_multiple_bugs=False, print_blob=False,
                suppress_health_check=[HealthCheck.too_slow, HealthCheck.data_too_large,
                                       HealthCheck.large_base_example],
                phases=[Phase.generate, Phase.target, Phase.shrink],
                stateful_step_count=getattr(mod, "STEP_COUNT", {"quick": 8, "thorough": 12})[tier],
            )
            sd = seed_base * 1000 + index
            mk = getattr(mod, "machine", None)
            if mk is not None:
                from hypothesis.stateful import run_state_machine_as_test
                M = seed(sd)(mk(tier, H.evaluate))
                run_state_machine_as_test(M, settings=sett)
            else:
                @seed(sd)
                @settings(sett)
                @given(mod.strategy(tier))
                def test(case):
                    H.evaluate(case)
                test()
    except ViolationFound:
        status = "violation"
    except HarnessAbort:
        status = "harness-error"
    except BaseException as e:  # noqa: BLE001
        if H.best_failure is not None and H.harness_error is None:
            status = "violation"  # e.g. hypothesis Flaky after the shrink budget ran out
        elif H.harness_error is not None:
            status = "harness-error"
        else:
            status = "harness-error"
            H.harness_error = "".join(traceback.format_exception(type(e), e, e.__traceback__))
    else:
        if H.best_failure is not None:
            status = "violation"
        if H.harness_error is not None:
            status = "harness-error"
    del hypothesis
    return H.result(status, time.time() - t0)


# ----------------------------------------------------------------------------
def run_single(mod, tier, case, active_known):
    """Plain execution of check(case), bypassing hypothesis (replay path)."""
    wd = getattr(mod, "WATCHDOG", {"quick": 30, "thorough": 120})["thorough"]
    H = Harness(mod, tier, active_known, wd)
    ctx = H.run_check(case)
    problems, hits = ctx.problems, []
    kf = getattr(mod, "known_filter", None)
    if problems and kf is not None and active_known:
        with warnings.catch_warnings():
            warnings.simplefilter("ignore")
            problems, hits = kf(case, problems, active_known)
    return ctx, problems, hits


def write_replay(prop_id, failure, seed, tier):
    os.makedirs(os.path.join(ROOT, "replays"), exist_ok=True)
    import hashlib
    h = hashlib.sha1(json.dumps(failure["case"], sort_keys=True).encode()).hexdigest()[:8]
    path = os.path.join(ROOT, "replays", "%s-%s.json" % (prop_id, h))
    with open(path, "w") as f:
        json.dump({"property": prop_id, "seed": seed, "tier": tier,
                   "problems": failure["problems"], "case": failure["case"]}, f, indent=1)
    return path


def main(argv=None):
    ap = argparse.ArgumentParser()
    ap.add_argument("prop")
    ap.add_argument("--tier", default=os.environ.get("VERIF_TIER", "quick"),
                    choices=["quick", "thorough"])
    ap.add_argument("--replay")
    ap.add_argument("--workers", type=int, default=int(os.environ.get("VERIF_WORKERS", "16")))
    ap.add_argument("--cases", type=int, default=None, help="cases per worker (debug)")
    ap.add_argument("--no-evidence", action="store_true")
    a = ap.parse_args(argv)
    prop_id = a.prop.upper()
    seed = int(os.environ.get("VERIF_SEED", "1") or "1")
    t0 = time.time()
    try:
        assert_tree()
        mod = importlib.import_module("vf.props." + prop_id.lower())
        known = load_known(prop_id)
    except Exception:  # noqa: BLE001
        traceback.print_exc()
        print("HARNESS-ERROR property=%s (setup)" % prop_id)
        return 2
    active = [e["id"] for e in known if e["status"] == "known"]

    # ---- replay mode -------------------------------------------------------
    if a.replay:
        try:
            with open(a.replay) as f:
                d = json.load(f)
            case = decode(d["case"])
            ctx, problems, hits = run_single(mod, a.tier, case, active)
        except Inconclusive:
            print("INCONCLUSIVE (watchdog) on replay %s" % a.replay)
            return 0
        except Exception:  # noqa: BLE001
            traceback.print_exc()
            print("HARNESS-ERROR property=%s (replay)" % prop_id)
            return 2
        for p in ctx.problems:
            print("  problem: %s: %s" % (p["sub"], p["msg"]))
        for h in hits:
            print("KNOWN-FINDING: property=%s id=%s (replayed case is explained by it)" % (prop_id, h))
        if problems:
            print("VIOLATION property=%s replay=%s" % (prop_id, a.replay))
            return 1
        print("replay passes: property=%s %s" % (prop_id, a.replay))
        return 0

    violations = []   # (path, problems)
    notes = []
    # ---- witnesses of known / fixed findings, regression corpus -----------
    try:
        for e in known:
            wpath = os.path.join(ROOT, e["witness"])
            with open(wpath) as f:
                d = json.load(f)
            case = decode(d["case"])
            try:
                ctx, problems, hits = run_single(mod, a.tier, case, active)
            except Inconclusive:
                notes.append("witness %s inconclusive (watchdog)" % e["id"])
                continue
            if e["status"] == "known":
                if problems:
                    violations.append((wpath, problems))
                elif e["id"] in hits:
                    print("KNOWN-FINDING: property=%s id=%s %s" % (prop_id, e["id"], e["site"]))
                else:
                    notes.append("known finding %s no longer reproduces on its witness" % e["id"])
                    print("NOTE: known finding %s (property %s) no longer reproduces" % (e["id"], prop_id))
            else:  # fixed: suppresses nothing, must pass
                if ctx.problems:
                    violations.append((wpath, ctx.problems))
        cdir = os.path.join(ROOT, "corpus", prop_id)
        n_corpus = 0
        if os.path.isdir(cdir):
            for fn in sorted(os.listdir(cdir)):
                if not fn.endswith(".json"):
                    continue
                cpath = os.path.join(cdir, fn)
                with open(cpath) as f:
                    d = json.load(f)
                try:
                    ctx, problems, hits = run_single(mod, a.tier, decode(d["case"]), active)
                except Inconclusive:
                    continue
                n_corpus += 1
                if problems:
                    violations.append((cpath, problems))
    except Exception:  # noqa: BLE001
        traceback.print_exc()
        print("HARNESS-ERROR property=%s (witness replay)" % prop_id)
        return 2

    # ---- cases that must run in the (non-daemonic) main process, e.g. joblib n_jobs > 1 ----------------------
    parent_result = None
    pc = getattr(mod, "parent_cases", None)
    if pc is not None and not violations:
        try:
            wd = getattr(mod, "WATCHDOG", {"quick": 30, "thorough": 120})[a.tier]
            Hp = Harness(mod, a.tier, active, max(wd, 60))
            try:
                for case in pc(a.tier):
                    Hp.evaluate(case)
            except ViolationFound:
                pass
            parent_result = Hp.result("violation" if Hp.best_failure else "ok", 0.0)
        except HarnessAbort:
            sys.stderr.write((Hp.harness_error or "") + "\n")
            print("HARNESS-ERROR property=%s (parent cases)" % prop_id)
            return 2

    # ---- generated search --------------------------------------------------
    n_cases = a.cases if a.cases is not None else mod.BUDGET[a.tier]
    nw = max(1, a.workers)
    jobs = [(prop_id, a.tier, seed, i, nw, n_cases, tuple(active)) for i in range(nw)]
    results = []
    harness_err = None
    if not violations and not (parent_result and parent_result["status"] == "violation"):
        # one forked process per worker; every worker leaves its result in a file of a private scratch directory.  (A
        # multiprocessing.Pool can dead-lock in terminate() when it is torn down while a worker is still sending a large
        # result - a check must always exit.)
        import pickle
        import shutil
        import tempfile
        ctxmp = mp.get_context("fork")
        scratch = tempfile.mkdtemp(prefix="vf_run_")

        def to_file(job, path):
            r = worker(job)
            with open(path + ".tmp", "wb") as f:
                pickle.dump(r, f)
            os.replace(path + ".tmp", path)

        procs = {}
        try:
            for i, job in enumerate(jobs):
                path = os.path.join(scratch, "w%d.pkl" % i)
                pr = ctxmp.Process(target=to_file, args=(job, path), daemon=True)
                pr.start()
                procs[i] = (pr, path)
            pending = dict(procs)
            stop = False
            while pending and not stop:
                time.sleep(0.05)
                for i in list(pending):
                    pr, path = pending[i]
                    if pr.is_alive():
                        continue
                    pr.join()
                    del pending[i]
                    if os.path.exists(path):
                        with open(path, "rb") as f:
                            r = pickle.load(f)
                    else:
                        r = {"status": "harness-error", "harness_error": "worker %d died with exit code %r without a result" % (i, pr.exitcode)}
                    results.append(r)
                    if r["status"] == "harness-error":
                        harness_err = r["harness_error"]
                        stop = True
                        break
                    if r["status"] == "violation":
                        stop = True
                        break
        finally:
            for pr, _ in procs.values():
                if pr.is_alive():
                    pr.terminate()
            for pr, _ in procs.values():
                pr.join(5)
                if pr.is_alive():
                    pr.kill()
                    pr.join(5)
            shutil.rmtree(scratch, ignore_errors=True)
    if parent_result is not None:
        results.append(parent_result)
    if harness_err:
        sys.stderr.write(harness_err + "\n")
        print("HARNESS-ERROR property=%s" % prop_id)
        return 2

    # ---- merge -------------------------------------------------------------
    ev = sum(r["evaluations"] for r in results)
    nt = set()
    classes, skipped, counts, excl = (collections.Counter() for _ in range(4))
    samples, inc_samples = [], []
    inconclusive = 0
    for r in results:
        nt.update(r["nontrivial"])
        classes.update(r["classes"])
        skipped.update(r["skipped"])
        counts.update(r["counts"])
        excl.update(r["excluded_known"])
        inconclusive += r["inconclusive"]
        inc_samples += r["inconclusive_samples"]
    for k in range(4):      # round-robin so that samples come from several workers
        for r in results:
            if k < len(r["samples"]) and len(samples) < 8:
                samples.append(r["samples"][k])
    fails = [r["failure"] for r in results if r["status"] == "violation" and r["failure"]]
    if fails:
        best = min(fails, key=lambda f: f["size"])
        path = write_replay(prop_id, best, seed, a.tier)
        violations.append((path, best["problems"]))

    wall = time.time() - t0
    if os.environ.get("VERIF_TRACE"):
        with open(os.environ["VERIF_TRACE"], "w") as f:
            json.dump({str(i): r.get("first_cases") for i, r in enumerate(results)}, f)
    if not a.no_evidence:
        evidence = {
            "property_id": prop_id, "tier": a.tier, "seed": seed, "level": "exploration",
            "coverage": {
                "evaluations": int(ev), "distinct_nontrivial": len(nt),
                "rule": mod.RULE, "samples": samples,
                "classes": dict(sorted(classes.items())),
                "skipped": dict(sorted(skipped.items())),
                "counters": dict(sorted(counts.items())),
                "excluded_known": dict(excl), "inconclusive": inconclusive,
                "inconclusive_samples": inc_samples[:3],
                "witnesses_replayed": [e["id"] + ":" + e["status"] for e in known],
                "workers": nw, "cases_per_worker": n_cases,
                "workers_finished": len(results),
                "exhaustive_parts": getattr(mod, "EXHAUSTIVE_PARTS", {}).get(a.tier, []),
                "notes": notes,
            },
            "assumptions": list(mod.ASSUMPTIONS),
            "wall_s": round(wall, 2), "violations": len(violations),
        }
        os.makedirs(os.path.join(ROOT, "evidence"), exist_ok=True)
        tmp = os.path.join(ROOT, "evidence", prop_id + ".json.tmp")
        with open(tmp, "w") as f:
            json.dump(evidence, f, indent=1, default=_jsonable)
        os.replace(tmp, os.path.join(ROOT, "evidence", prop_id + ".json"))

    print("%s tier=%s seed=%d evaluations=%d distinct_nontrivial=%d excluded_known=%d "
          "inconclusive=%d wall=%.1fs" % (prop_id, a.tier, seed, ev, len(nt),
                                          sum(excl.values()), inconclusive, wall))
    if violations:
        for path, problems in violations:
            for p in problems[:5]:
                print("  problem: %s: %s" % (p["sub"], p["msg"]))
            print("VIOLATION property=%s replay=%s" % (prop_id, path))
        return 1
    return 0


def _jsonable(o):
    """NumPy values inside evidence samples (0-d request arrays, NumPy scalars, small arrays)."""
    if isinstance(o, np.ndarray):
        return o.tolist()
    if isinstance(o, np.generic):
        return o.item()
    if isinstance(o, (set, frozenset, tuple)):
        return list(o)
    return repr(o)


if __name__ == "__main__":
    try:
        rc = main()
    except SystemExit:
        raise
    except BaseException:  # noqa: BLE001 - a crash of the harness is never a verdict about the property
        traceback.print_exc()
        print("HARNESS-ERROR (uncaught exception in the runner)")
        rc = 2
    sys.exit(rc)

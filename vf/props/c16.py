"""C16 - QuickShift returns the basin partition of the density-ascent graph."""

import itertools

import numpy as np
from hypothesis import strategies as st
from hypothesis.extra import numpy as hnp

from skmatter.clustering import QuickShift
try:
    from skmatter.clustering._quick_shift import _get_gabriel_graph
except ImportError:          # private helper: its absence is no violation (the graph is then judged through the labels only)
    _get_gabriel_graph = None
from vf import gen

ID = "C16"
TITLE = "QuickShift returns the basin partition of the density-ascent graph"
TECHNIQUE = ("Hypothesis PBT with a brute-force reference model (explicit minimum-image distances, three-valued brute-force Gabriel "
             "graph, admissible next-pointer sets) used as a validity predicate, exact agreement in tie-free cases, metamorphic "
             "relations (input order, monotone weight re-mapping, periodic images); exhaustive input orders for small n")
LEVEL = ("Generated-input exploration: labels must be roots of some admissible next-pointer forest (nearest strictly heavier point "
         "the rule allows, ties within tolerance all admissible), equal the oracle's unique forest when no tie exists, centres label "
         "themselves, the heaviest point is a centre, the Gabriel graph used contains every certain edge and no certain non-edge of "
         "the brute-force definition; partitions are compared under permutations (all n! orders for small n), monotone re-weighting "
         "and image shifts. No absence claim: strength = the counted distinct non-trivial cases in the evidence.")
BUDGET = {"quick": 350, "thorough": 5000}
EXHAUSTIVE_PARTS = {
    "quick": ["all 120 input orders of 2 fixed 5-point sets x {cut-off, Gabriel shell 1, Gabriel shell 2}"],
    "thorough": ["all 5040 input orders of 2 fixed 7-point sets and all 720 orders of 4 fixed 6-point sets x {cut-off, Gabriel shell 1, 2}"],
}
RULE = ("Cases: 2..40 points (thorough 120) in 1..4 dimensions, kinds generic / lattice (ties) / collinear / duplicated points, distinct "
        "weights (a drawn permutation plus offset), per-point squared cut-offs e^{N(0,1.5)} x median d^2 (tiny .. larger than the "
        "diameter; in a fifth of the cut-off cases some are infinite, always the one of the heaviest point), gabriel_shell 1..3, scale in {1, .5, 2}, optional periodic cell (e^{N(0,1)} x 2 per side).  Non-trivial: >= 2 clusters "
        "and, walking the oracle forest in input order, a path of >= 2 steps that runs into an already rooted chain; distinct = SHA-1 of "
        "the canonical case.")
ASSUMPTIONS = [
    "distance comparisons use tolerance 1e-9 x largest squared distance; an edge / cut-off / nearest-neighbour decision inside that band is "
    "ambiguous and every outcome is admissible (sklearn's dot-product distances differ in the last bit between duplicates)",
    "shell s means Gabriel-graph distance <= s (the implemented and tested reading)",
    "exact label equality and the metamorphic relations are required only when every point has a unique admissible next pointer at the "
    "wider tolerance 1e-6",
]


def sqd(X, cell):
    d = X[:, None, :] - X[None, :, :]
    if cell is not None:
        d = d - np.round(d / cell) * cell
    return (d ** 2).sum(-1)


@st.composite
def strategy_(draw, tier):
    d = draw(st.integers(1, 4))
    n = draw(st.integers(2, 120 if tier == "thorough" else 40))
    kind = draw(st.sampled_from(["generic", "generic", "lattice", "collinear", "dup"]))
    if kind == "generic":
        X = gen.normal(draw, (n, d))
    elif kind == "lattice":
        X = gen.lattice(draw, (n, d))
    elif kind == "collinear":
        X = np.outer(gen.normal(draw, (n,)), gen.normal(draw, (d,)))
    else:
        X = gen.normal(draw, (n, d))
        for _ in range(draw(st.integers(1, max(1, n // 3)))):
            X[draw(st.integers(0, n - 1))] = X[draw(st.integers(0, n - 1))]
    w = gen.permutation(draw, n).astype(float) + draw(st.floats(0, 0.5, width=32))
    cell = None
    if draw(st.integers(0, 9)) < 3:
        cell = np.exp(gen.normal(draw, (d,))) * 2
    mode = draw(st.sampled_from(["cut", "gabriel"]))
    case = {"kind": kind, "X": X, "w": w, "cell": cell, "mode": mode, "scale": draw(st.sampled_from([1.0, 1.0, 0.5, 2.0])),
            "perm": gen.permutation(draw, n), "shift": draw(hnp.arrays(np.int64, (n, d), elements=st.integers(-3, 3)))}
    if mode == "cut":
        case["cut_log"] = gen.normal(draw, (n,)) * 1.5
        if draw(st.integers(0, 4)) == 0:
            case["cut_inf"] = draw(hnp.arrays(np.bool_, (n,)))
    else:
        case["shell"] = draw(st.integers(1, 3))
    return case


def strategy(tier):
    return strategy_(tier)


def fixed_points(j, n):
    rng = np.random.default_rng(900 + j)
    X = rng.normal(size=(n, 2))
    w = rng.permutation(n).astype(float) + 0.25
    return X, w


def exhaustive(tier):
    sets = [(0, 5), (1, 5)] if tier == "quick" else [(0, 7), (1, 7), (2, 6), (3, 6), (4, 6), (5, 6)]
    for j, n in sets:
        X, w = fixed_points(j, n)
        for mode, extra in (("cut", {"cut_log": np.linspace(-1.5, 1.0, n)}), ("gabriel", {"shell": 1}), ("gabriel", {"shell": 2})):
            for perm in itertools.permutations(range(n)):
                c = {"kind": "fixed", "X": X, "w": w, "cell": None, "mode": mode, "scale": 1.0,
                     "perm": np.array(perm, dtype=int), "shift": np.zeros((n, 2), dtype=int)}
                c.update(extra)
                yield c


# ----------------------------------------------------------------------------
def cutoffs(case, D):
    pos = D[D > 0]
    med = float(np.median(pos)) if pos.size else 1.0
    c = np.exp(case["cut_log"]) * med
    if case.get("cut_inf") is not None:
        # "no cut-off" for some points (always including the heaviest one, which then has nowhere to go)
        c = np.array(c, dtype=float, copy=True)
        mask = np.asarray(case["cut_inf"], bool)
        c[mask[: len(c)]] = np.inf
        c[int(np.argmax(case["w"]))] = np.inf
    return c


def gabriel3(D, tol):
    """(certain, possible) boolean matrices of the brute-force Gabriel graph."""
    n = len(D)
    cert = np.zeros((n, n), bool)
    poss = np.zeros((n, n), bool)
    for i in range(n):
        for j in range(i + 1, n):
            m = D[i] + D[j] - D[i, j]
            m[i] = m[j] = np.inf
            mn = m.min() if n > 2 else np.inf
            cert[i, j] = cert[j, i] = (mn > tol) if tol > 0 else (mn >= 0)
            poss[i, j] = poss[j, i] = mn >= -tol
    return cert, poss


def reach(G, i, shell):
    seen = G[i].copy()
    for _ in range(1, shell):
        nxt = seen.copy()
        for j in np.where(seen)[0]:
            nxt |= G[j]
        seen = nxt
    seen[i] = False
    return seen


def admissible(case, D, w, tol, cut=None, cert=None, poss=None):
    """For every point the set of admissible next pointers (may contain the point itself)."""
    n = len(w)
    out = []
    for i in range(n):
        heavier = w > w[i]
        di = D[i].copy()
        di[i] = np.inf
        if case["mode"] == "cut":
            cmin = heavier & (di < cut[i] - tol)
            cmax = heavier & (di < cut[i] + tol)
            adm = set()
            if cmin.any():
                dm = di[cmin].min()
                adm |= set(np.where(cmax & (di <= dm + tol))[0].tolist())
            else:
                if cmax.any():
                    dm = di[cmax].min()
                    adm |= set(np.where(cmax & (di <= dm + tol))[0].tolist())
                if n > 1:
                    dm = di.min()
                    nn = di <= dm + tol
                    adm |= set(np.where(nn & heavier)[0].tolist())
                    if (nn & ~heavier).any():
                        adm.add(i)
                if not adm:
                    adm.add(i)
            out.append(adm)
        else:
            rmin = reach(cert, i, case["shell"]) & heavier
            rmax = reach(poss, i, case["shell"]) & heavier
            adm = set()
            if rmin.any():
                dm = di[rmin].min()
                adm |= set(np.where(rmax & (di <= dm + tol))[0].tolist())
            else:
                adm.add(i)
                if rmax.any():
                    adm |= set(np.where(rmax)[0].tolist())
            out.append(adm)
    return out


def run_qs(case, X, w, cut, cell):
    if case["mode"] == "cut":
        m = QuickShift(dist_cutoff_sq=np.array(cut, dtype=float) / case["scale"] ** 2, scale=case["scale"],
                       metric_params={"cell_length": cell})
    else:
        m = QuickShift(gabriel_shell=case["shell"], scale=case["scale"], metric_params={"cell_length": cell})
    # the weights are "array-like": a third of the cases hand them over as a list or a tuple (keyed by the data, so replays agree)
    form = int(abs(float(np.sum(w))) * 1e6) % 6
    m.fit(X, samples_weight=list(w) if form == 0 else tuple(w) if form == 1 else w)
    return m


def check(case, ctx):
    X, w, cell = case["X"], case["w"], case["cell"]
    n = len(X)
    ctx.cls("kind=" + case["kind"], "mode=" + case["mode"] + ("" if case["mode"] == "cut" else str(case["shell"])), "cell=%s" % (cell is not None))
    D = sqd(X, cell)
    tol = 1e-9 * max(float(D.max()), 1e-300)
    cut = cutoffs(case, D) if case["mode"] == "cut" else None
    cert = poss = None
    # small-integer coordinates without a cell: every squared distance is an exact integer in the oracle AND in the
    # dot-product formula the estimator uses, so "a third point inside the ball" is decided exactly (a point ON the sphere,
    # e.g. the corner of a lattice square, does not remove the edge)
    exact = case["kind"] == "lattice" and cell is None and float(np.abs(X).max()) <= 64 and bool(np.all(X == np.round(X)))
    gtol = 0.0 if exact else tol
    if exact:
        ctx.cls("exact_integer_regime")
    if case["mode"] == "gabriel":
        cert, poss = gabriel3(D, gtol)
        Dm = np.array(D, copy=True)
        np.fill_diagonal(Dm, np.inf)
        G = None
        try:
            # the graph on the distances the estimator itself computes
            from skmatter.metrics import periodic_pairwise_euclidean_distances as ppd
            Dlib = ppd(X, X, squared=True, cell_length=cell)
            np.fill_diagonal(Dlib, np.inf)
            G = np.asarray(_get_gabriel_graph(Dlib), bool)
        except TypeError:
            # the helper is private: a changed signature is no violation; the graph is then judged through the labels only
            ctx.skip("gabriel: private helper not callable with a distance matrix")
        except Exception as e:  # noqa: BLE001
            from vf.core import innermost_frame
            ctx.fail("exception:_get_gabriel_graph", "%s: %s @ %s" % (type(e).__name__, str(e)[:160], innermost_frame(e)))
            return
    if case["mode"] == "gabriel" and G is not None:
        ctx.true("gabriel:symmetric-no-loops", bool(np.array_equal(G, G.T)) and not G.diagonal().any(), "graph not symmetric / has loops")
        miss = cert & ~G
        extra = G & ~poss
        ctx.true("gabriel:contains-certain-edges", not miss.any(), "certain Gabriel edge missing: %s" % (np.argwhere(miss)[:3].tolist(),))
        ctx.true("gabriel:no-certain-non-edges", not extra.any(), "edge present although a third point lies inside the ball: %s" % (np.argwhere(extra)[:3].tolist(),))
        ctx.count("gabriel_pairs", n * (n - 1) // 2)
        ctx.count("gabriel_ambiguous_pairs", int((poss & ~cert).sum() // 2))
    with ctx.lib("fit"):
        m = run_qs(case, X, w, cut, cell)
    lab = np.asarray(m.labels_)
    ctx.true("labels-shape", lab.shape == (n,) and bool(np.all((lab >= 0) & (lab < n))), "labels %s" % lab.tolist()[:20])
    if lab.shape != (n,) or np.any(lab < 0) or np.any(lab >= n):
        return
    adm = admissible(case, D, w, tol, cut, cert, poss)
    order = np.argsort(-w)
    for i in order:
        okl = {(i if j == i else int(lab[j])) for j in adm[i]}
        if int(lab[i]) not in okl:
            ctx.fail("label-not-reachable", "point %d is labelled %d but its admissible next pointers %s lead to %s"
                     % (i, lab[i], sorted(adm[i]), sorted(okl)))
            break
    centers = np.asarray(m.cluster_centers_idx_)
    ctx.true("heaviest-is-centre", int(lab[np.argmax(w)]) == int(np.argmax(w)), "heaviest point %d labelled %d" % (np.argmax(w), lab[np.argmax(w)]))
    ctx.equal("centres==unique(labels)", np.sort(centers), np.unique(lab), "cluster_centers_idx_")
    ctx.true("centres-label-themselves", bool(np.all(lab[np.unique(lab)] == np.unique(lab))), "a centre does not label itself")
    ctx.close("cluster_centers_", np.asarray(m.cluster_centers_), X[centers], 0.0, "cluster_centers_ vs X[cluster_centers_idx_]")
    # monotone re-mapping of the weights never changes anything (only comparisons are used)
    with ctx.lib("fit-reweighted"):
        m3 = run_qs(case, X, np.exp(w / max(3.0, n / 50.0)), cut, cell)
    ctx.equal("monotone-weight-map", np.asarray(m3.labels_), lab, "labels after w -> exp(w/c)")
    # unique forest?
    wide = 1e-6 * max(float(D.max()), 1e-300)
    if case["mode"] == "gabriel":
        cert2, poss2 = gabriel3(D, wide)
    else:
        cert2 = poss2 = None
    adm2 = admissible(case, D, w, wide, cut, cert2, poss2)
    unique = all(len(a) == 1 for a in adm2)
    ctx.cls("tie_free=%s" % unique)
    nxt = np.array([next(iter(a)) if len(a) == 1 else min(a) for a in adm2])
    if unique:
        root = np.arange(n)
        for i in order:
            root[i] = i if nxt[i] == i else root[nxt[i]]
        ctx.equal("labels==oracle-forest", lab, root, "labels vs the unique basin partition")
        p = np.asarray(case["perm"])
        with ctx.lib("fit-permuted"):
            m2 = run_qs(case, X[p], w[p], None if cut is None else cut[p], cell)
        ctx.equal("order-independence", p[np.asarray(m2.labels_)], lab[p], "labels after permuting the input order")
        ctx.count("permutations_checked")
        if cell is not None:
            Xs = X + case["shift"] * cell
            Ds = sqd(Xs, cell)
            if np.abs(Ds - D).max() <= 1e-3 * wide:
                with ctx.lib("fit-shifted"):
                    m4 = run_qs(case, Xs, w, cut, cell)
                ctx.equal("image-shift-independence", np.asarray(m4.labels_), lab, "labels after shifting points by whole cells")
                ctx.count("image_shifts_checked")
    # non-trivial: a path of >= 2 steps that runs into an already rooted chain
    rooted = np.zeros(n, bool)
    hit = False
    for i in range(n):
        if rooted[i]:
            continue
        path = [i]
        cur = i
        while nxt[cur] != cur and not rooted[nxt[cur]]:
            cur = int(nxt[cur])
            path.append(cur)
        if nxt[cur] != cur and rooted[nxt[cur]] and len(path) >= 2:
            hit = True
        rooted[path] = True
    if len(np.unique(lab)) >= 2 and hit:
        ctx.nontrivial = True
    ctx.cls("clusters=%s" % ("1" if len(np.unique(lab)) == 1 else "2+"))


def summarize(case):
    s = {"kind": case["kind"], "n": int(len(case["X"])), "d": int(case["X"].shape[1]), "mode": case["mode"], "scale": case["scale"],
         "cell": None if case["cell"] is None else np.round(case["cell"], 4).tolist(), "w_first": case["w"][:6].tolist(),
         "X_first": np.round(case["X"][:2], 4).tolist(), "perm_first": np.asarray(case["perm"])[:8].tolist()}
    if case["mode"] == "gabriel":
        s["shell"] = case["shell"]
    return s

"""C13 - reconstruction measures vanish on contained information, isometry invariant."""

import numpy as np
from hypothesis import strategies as st
from sklearn.linear_model import Ridge
from sklearn.model_selection import KFold

from skmatter.linear_model import Ridge2FoldCV
from skmatter.metrics import check_global_reconstruction_measures_input as default_inputs
from skmatter.metrics import global_reconstruction_distortion as GRD
from skmatter.metrics import global_reconstruction_error as GRE
from skmatter.metrics import local_reconstruction_error as LRE
from skmatter.metrics import pointwise_global_reconstruction_distortion as pGRD
from skmatter.metrics import pointwise_global_reconstruction_error as pGRE
from skmatter.metrics import pointwise_local_reconstruction_error as pLRE
from vf import gen

ID = "C13"
TITLE = "Reconstruction measures vanish on contained information, isometry invariant"
TECHNIQUE = ("Hypothesis PBT with metamorphic relations (rotation / reflection / uniform scaling / shift of source and target), planted "
             "linear and orthogonal maps, RMS identity and cross-function identity (LRE with all neighbours = pointwise GRE)")
LEVEL = ("Generated-input exploration over feature widths (X wider, equal, narrower), index modes (default, explicit, overlapping, "
         "train-only, test-only), neighbour counts and estimators: planted maps give zero error / distortion, pointwise values are "
         "non-negative and aggregate by RMS, GRE/GRD/LRE are invariant under the stated isometries, GRE on the training set is <= 1 and "
         "LRE with all training points equals pointwise GRE. No absence claim: strength = the counted distinct non-trivial cases.")
BUDGET = {"quick": 45, "thorough": 180}
WATCHDOG = {"quick": 60, "thorough": 240}
RULE = ("Cases: 1..6 features on either side, n in [4 f_X + 8, 4 f_X + 40] samples (thorough +120) so that every sub-sample an estimator is "
        "fitted on can have full column rank, X = normal x column scales + offset, Y = tanh(X B) + noise; index modes default / explicit split "
        "(training part >= 2 f_X + 4) / overlapping / train-only / test-only; n_local_points 2..6 or up to n_train; drawn orthogonal Q, R, "
        "scale factors {.01,3,100} x {.1,5} and shifts of magnitude 1..1e6 times the spread.  Non-trivial: X and Y of different width, or a non-default index mode; "
        "distinct = SHA-1 of the canonical case.")
ASSUMPTIONS = [
    "GRE(X, XA) = 0 is claimed only when both inner cross-validation folds of the training part have full column rank (checked)",
    "an invariance mismatch is re-examined: if the default estimator selects different alphas for the two variants while their CV "
    "values are tied within 1e-6 (relative), model selection is not determined by the data and the case is skipped (counted)",
    "tolerance 1e-6 x max(1, value); for the shift invariance max(1e-6, 1e3 x eps x |shifted data| / spread): a large shift costs digits of the input itself",
]


@st.composite
def strategy_(draw, tier):
    fx = draw(st.integers(1, 6))
    fy = draw(st.integers(1, 6))
    n = draw(st.integers(4 * fx + 8, 4 * fx + (160 if tier == "thorough" else 40)))
    X = gen.normal(draw, (n, fx)) * np.exp(gen.normal(draw, (fx,))) + gen.normal(draw, (fx,))
    Y = np.tanh(X @ gen.normal(draw, (fx, fy))) + 0.3 * gen.normal(draw, (n, fy))
    mode = draw(st.sampled_from(["default", "explicit", "overlap", "train_only", "test_only"]))
    perm = gen.permutation(draw, n)
    lo = 2 * fx + 4
    if mode == "explicit":
        h = draw(st.integers(lo, n - 2))
        idx = {"train_idx": perm[:h], "test_idx": perm[h:]}
    elif mode == "overlap":
        idx = {"train_idx": perm[: max(lo, int(0.7 * n))], "test_idx": perm[int(0.3 * n):]}
    elif mode == "train_only":
        idx = {"train_idx": perm[: max(lo, n // 2)]}
    elif mode == "test_only":
        idx = {"test_idx": perm[: max(1, min(n - lo, n // 2))]}
    else:
        idx = {}
    return {"X": X, "Y": Y, "mode": mode, "idx": idx, "A": gen.normal(draw, (fx, fy)), "Q": gen.orthogonal(draw, fx),
            "R": gen.orthogonal(draw, fx), "Ry": gen.orthogonal(draw, fy), "c": draw(st.sampled_from([0.01, 3.0, 100.0])),
            "cy": draw(st.sampled_from([0.1, 5.0])), "shx": gen.normal(draw, (fx,)) * draw(st.sampled_from([10.0, 1e3, 1e6])),
            "shy": gen.normal(draw, (fy,)) * draw(st.sampled_from([1.0, 1e3, 1e6])),
            "nloc": draw(st.integers(2, 6)), "ridge_alpha": draw(st.sampled_from([1e-3, 1e-1])),
            "sub": gen.permutation(draw, n), "lre_native": draw(st.integers(0, 4)) == 0, "seed_order": draw(st.integers(0, 99))}


def strategy(tier):
    return strategy_(tier)


def resolved_indices(X, Y, idx):
    tr, te, _, _ = default_inputs(X, Y, idx.get("train_idx"), idx.get("test_idx"), None, None)
    return np.asarray(tr), np.asarray(te)


def selection_info(X, Y, idx):
    """alpha chosen by the default estimator and its CV values, re-running the documented pipeline."""
    tr, te, scaler, est = default_inputs(X, Y, idx.get("train_idx"), idx.get("test_idx"), None, None)
    Xt = scaler.fit(X[tr]).transform(X[tr])
    Yt = scaler.fit(Y[tr]).transform(Y[tr])
    est.fit(Xt, Yt)
    return est.alpha_, np.asarray(est.cv_values_, float), np.asarray(est.alphas, float)


def tied_selection(Xa, Ya, Xb, Yb, idx):
    try:
        a1, cv1, al = selection_info(Xa, Ya, idx)
        a2, cv2, _ = selection_info(Xb, Yb, idx)
    except Exception:  # noqa: BLE001
        return False
    if a1 == a2:
        return False
    i, j = int(np.where(al == a1)[0][0]), int(np.where(al == a2)[0][0])
    t = 1e-6 * max(1.0, np.abs(cv1).max())
    return abs(cv1[i] - cv1[j]) <= t or abs(cv2[i] - cv2[j]) <= t


def inner_folds_full_rank(X, tr):
    Xt = X[tr]
    Xt = Xt - Xt.mean(0)
    fx = X.shape[1]
    for a, b in KFold(2, shuffle=True, random_state=0x5F3759DF).split(Xt):
        for part in (a, b):
            if len(part) < fx or np.linalg.matrix_rank(Xt[part]) < fx:
                return False
    return True


def check(case, ctx):
    X, Y, idx = case["X"], case["Y"], case["idx"]
    n, fx = X.shape
    fy = Y.shape[1]
    ctx.cls("mode=" + case["mode"], "fx%sfy" % ("<" if fx < fy else "=" if fx == fy else ">"))
    tr, te = resolved_indices(X, Y, idx)
    # --- planted maps ---------------------------------------------------------------------------------------
    if inner_folds_full_rank(X, tr):
        with ctx.lib("GRE(X, XA)"):
            v = GRE(X, X @ case["A"], **idx)
        ctx.true("GRE(X,XA)==0", v <= 1e-6, "GRE of a linear function of X is %.3e (fx=%d, fy=%d)" % (v, fx, fy))
        with ctx.lib("GRD(X, XQ)"):
            v = GRD(X, X @ case["Q"], **idx)
        ctx.true("GRD(X,XQ)==0", v <= 1e-6, "GRD of a rotation of X is %.3e (fx=%d)" % (v, fx))
        ctx.count("planted_checked")
        # user-supplied scaler (column-wise standardisation is a linear map per column, contained information stays contained)
        from skmatter.preprocessing import StandardFlexibleScaler
        with ctx.lib("GRE(X, XA, scaler)"):
            v = GRE(X, X @ case["A"], scaler=StandardFlexibleScaler(column_wise=True), **idx)
            pv = np.asarray(pGRE(X, X @ case["A"], scaler=StandardFlexibleScaler(column_wise=True), **idx))
        ctx.true("GRE(X,XA)==0(column-wise scaler)", v <= 1e-6, "GRE of a linear function of X with a column-wise scaler is %.3e" % v)
        ctx.close("GRE:global==rms(pointwise)(column-wise scaler)", v, float(np.sqrt(np.mean(pv ** 2))), 1e-10 * max(1.0, v), "user scaler")
        # the documented default estimator handed over by the user, with its alpha grid listed in another order: same folds,
        # same candidate models, so contained information stays contained
        grid, so = np.geomspace(1e-9, 0.9, 20), int(case.get("seed_order", 1))
        grid = grid[::-1].copy() if so % 2 else grid[np.random.default_rng(so).permutation(20)]
        user = lambda: Ridge2FoldCV(alphas=grid.copy(), alpha_type="relative", regularization_method="cutoff",  # noqa: E731
                                    random_state=0x5F3759DF, shuffle=True, scoring="neg_root_mean_squared_error", n_jobs=1)
        with ctx.lib("GRE/GRD(user estimator, reordered grid)"):
            v = GRE(X, X @ case["A"], estimator=user(), **idx)
            v2 = GRD(X, X @ case["Q"], estimator=user(), **idx)
        ctx.true("GRE(X,XA)==0(user grid order)", v <= 1e-6, "GRE of a linear function of X with the default estimator's grid reordered is %.3e" % v)
        ctx.true("GRD(X,XQ)==0(user grid order)", v2 <= 1e-6, "GRD of a rotation of X with the default estimator's grid reordered is %.3e" % v2)
    else:
        ctx.skip("planted maps: an inner CV fold of the training part is rank deficient")
    # --- every function defined, non-negative, RMS; invariances ---------------------------------------------
    nloc = min(case["nloc"], len(tr))
    Xs = (X @ case["R"]) * case["c"] + case["shx"]
    Ys = Y * case["cy"] + case["shy"]
    # rounding noise of the shifted inputs relative to their spread (a shift by 1e6 spreads costs 6 digits of the data itself)
    eta = max(float(np.abs(Xs).max() / max(Xs.std(0).min(), 1e-300)), float(np.abs(Ys).max() / max(Ys.std(0).min(), 1e-300))) * 2.3e-16
    inv_tol = max(1e-6, 1e3 * eta)
    base_idx = idx
    for name, gl, pw, extra in (("GRE", GRE, pGRE, {}), ("GRD", GRD, pGRD, {}), ("LRE", LRE, pLRE, {"n_local_points": nloc})):
        # LRE refits the estimator for every test point: unless drawn otherwise it is evaluated on 4 test points
        idx = base_idx if (name != "LRE" or case.get("lre_native")) else {"train_idx": tr, "test_idx": te[:4]}
        n_te = len(te) if (name != "LRE" or case.get("lre_native")) else len(te[:4])
        with ctx.lib(name):
            a = gl(X, Y, **extra, **idx)
            b = np.asarray(pw(X, Y, **extra, **idx))
        ctx.true(name + ":finite", bool(np.isfinite(a)) and bool(np.all(np.isfinite(b))), "non-finite value")
        ctx.true(name + ":pointwise-shape", b.shape == (n_te,), "pointwise shape %s for %d test points" % (b.shape, n_te))
        ctx.true(name + ":nonneg", bool(np.all(b >= 0)) and a >= 0, "negative value")
        ctx.close(name + ":global==rms(pointwise)", a, float(np.sqrt(np.mean(b ** 2))), 1e-10 * max(1.0, a), "global vs RMS of pointwise")
        # the value of a test point does not depend on which other points are tested with it
        te_used = te if (name != "LRE" or case.get("lre_native")) else te[:4]
        if len(te_used) >= 2:
            sub = {"train_idx": tr, "test_idx": te_used[: max(1, len(te_used) // 2)]}
            with ctx.lib(name + "-test-subset"):
                b_sub = np.asarray(pw(X, Y, **extra, **sub))
            ctx.close(name + ":test-subset-independence", b_sub, b[: len(b_sub)], 1e-9 * max(1.0, float(b.max())), "pointwise values on a subset of the test points")
        with ctx.lib(name + "-transformed"):
            a2 = gl(Xs, Ys, **extra, **idx)
        # LRE far above 1 means local models that interpolate / extrapolate through almost coincident neighbours (small
        # n_local_points): their sensitivity to rounding of the inputs grows with the value itself
        lim = inv_tol * max(1.0, a) * (max(1.0, a) if name == "LRE" else 1.0)
        if abs(a2 - a) > lim:
            if tied_selection(X, Y, Xs, Ys, idx):
                ctx.skip(name + ": invariance undecided (tied model selection)")
            else:
                ctx.fail(name + ":source-isometry/scale/shift", "%s changes from %.9g to %.9g under rotation, scaling by %g / %g and shifts"
                         % (name, a, a2, case["c"], case["cy"]))
        # target rotation with a rotation-invariant estimator
        with ctx.lib(name + "-target-rotation"):
            a3 = gl(X, Y, estimator=Ridge(alpha=case["ridge_alpha"], fit_intercept=False), **extra, **idx)
            a4 = gl(X, Y @ case["Ry"], estimator=Ridge(alpha=case["ridge_alpha"], fit_intercept=False), **extra, **idx)
        if abs(a3 - a4) > 1e-6 * max(1.0, a3):
            ctx.fail(name + ":target-rotation", "%s changes from %.9g to %.9g when Y is rotated (fixed-alpha ridge)" % (name, a3, a4))
        ctx.count("invariance_comparisons", 2)
    idx = base_idx
    # --- the global functions forward every optional argument (scaler, estimator, indices) to the pointwise ones ----------
    from skmatter.preprocessing import StandardFlexibleScaler as _SFS
    sub_idx = {"train_idx": tr, "test_idx": te[:6]}
    for name, gl, pw, extra in (("GRE", GRE, pGRE, {}), ("GRD", GRD, pGRD, {}), ("LRE", LRE, pLRE, {"n_local_points": nloc})):
        with ctx.lib(name + "-user-arguments"):
            ga = gl(X, Y, scaler=_SFS(column_wise=True), estimator=Ridge(alpha=case["ridge_alpha"], fit_intercept=False), **extra, **sub_idx)
            pa = np.asarray(pw(X, Y, scaler=_SFS(column_wise=True), estimator=Ridge(alpha=case["ridge_alpha"], fit_intercept=False), **extra, **sub_idx))
        ctx.close(name + ":global==rms(pointwise)(user scaler+estimator)", ga, float(np.sqrt(np.mean(pa ** 2))), 1e-10 * max(1.0, ga),
                  "global vs RMS of pointwise with a user scaler and estimator")
    # --- defined for every pair of feature sets: a feature that is constant on the training samples (zero padding) ------------
    Xz, Yz = np.hstack([X, np.zeros((n, 1))]), np.hstack([np.full((n, 1), 2.5), Y])
    for name, gl, extra in (("GRE", GRE, {}), ("GRD", GRD, {}), ("LRE", LRE, {"n_local_points": nloc})):
        sub_idx = {"train_idx": tr, "test_idx": te[:4]}
        with ctx.lib(name + "(constant feature)"):
            v1 = gl(Xz, Y, **extra, **sub_idx)
            v2 = gl(X, Yz, **extra, **sub_idx)
        ctx.true(name + ":defined-with-constant-feature", bool(np.isfinite(v1)) and bool(np.isfinite(v2)) and v1 >= 0 and v2 >= 0,
                 "%s with a constant column appended to X / Y: %r / %r" % (name, v1, v2))
    # --- training-set bound ----------------------------------------------------------------------------------
    p = np.asarray(case["sub"])[: max(fx + 2, n // 2)]
    with ctx.lib("GRE-train"):
        v = GRE(X, Y, train_idx=p, test_idx=p)
    ctx.true("GRE(train)<=1", v <= 1 + 1e-9, "GRE evaluated on its training set is %.12g" % v)
    # --- LRE with all training neighbours and an order-independent estimator == pointwise GRE ------------
    est = lambda: Ridge2FoldCV(alphas=[1e-6], alpha_type="relative", regularization_method="cutoff")  # noqa: E731
    with ctx.lib("LRE-all-neighbours"):
        l_ = np.asarray(pLRE(X, Y, n_local_points=len(tr), train_idx=tr, test_idx=te[:8], estimator=est()))
        g_ = np.asarray(pGRE(X, Y, train_idx=tr, test_idx=te[:8], estimator=est()))
    ctx.close("LRE(all neighbours)==pointwise GRE", l_, g_, 1e-7 * max(1.0, float(g_.max())), "with a single-alpha Ridge2FoldCV")
    if fx != fy or case["mode"] != "default":
        ctx.nontrivial = True


def summarize(case):
    return {"n": int(case["X"].shape[0]), "fx": int(case["X"].shape[1]), "fy": int(case["Y"].shape[1]), "mode": case["mode"],
            "n_train_given": None if "train_idx" not in case["idx"] else int(len(case["idx"]["train_idx"])),
            "n_test_given": None if "test_idx" not in case["idx"] else int(len(case["idx"]["test_idx"])),
            "c": case["c"], "cy": case["cy"], "nloc": case["nloc"]}

"""C18 - OrthogonalRegression yields an orthogonal map that is Procrustes-optimal."""

import numpy as np
from hypothesis import strategies as st
from sklearn.linear_model import LinearRegression, Ridge

from skmatter.linear_model import OrthogonalRegression as OR
from vf import gen

ID = "C18"
TITLE = "OrthogonalRegression yields an orthogonal map that is Procrustes-optimal"
TECHNIQUE = ("Hypothesis PBT: orthogonality / partial-isometry validity predicates, optimality against competitor orthogonal maps "
             "(random and small rotations of the solution), round trip on planted orthogonal maps")
LEVEL = ("Generated-input exploration over feature/target widths (smaller, equal, larger), both modes and user-supplied linear "
         "estimators: the fitted map is checked to be orthogonal resp. a partial isometry, norm non-expanding, no worse than 14 "
         "competitor maps per case, and to recover planted (semi-)orthogonal maps exactly. "
         "No absence claim: strength = the counted distinct non-trivial cases in the evidence.")
BUDGET = {"quick": 1200, "thorough": 50000}
RULE = ("Cases: n in max(f,g)+2..24 samples (thorough 60), f and g in 1..6, X normal (optionally with column scales; a quarter of the cases uncentred: positive features and, unless planted, a strongly negative target offset; a fifth of the remaining non-planted cases with one target that depends on X only at relative strength 1e-6), y either a noisy "
        "linear function of X or exactly X Q for a drawn (semi-)orthogonal Q; modes padded / projector; linear estimator default, "
        "LinearRegression(no intercept) or Ridge(alpha in {1e-10, 1, 50}); competitors: 8 random orthogonal matrices and 6 small "
        "rotations (1e-2, 1e-3) of the fitted solution.  Non-trivial: f != g or a planted orthogonal map; distinct = SHA-1 of the "
        "canonical case.")
ASSUMPTIONS = [
    "residual comparisons use tolerance 1e-9 x max(1, residual); orthogonality 1e-8",
    "recovery in padded mode is claimed only for n_features <= n_targets (a semi-orthogonal Q with more rows than columns "
    "cannot be completed so that the padded target columns vanish)",
]


@st.composite
def strategy_(draw, tier):
    f = draw(st.integers(1, 6))
    g = draw(st.integers(1, 6))
    n = draw(st.integers(max(f, g) + 2, 60 if tier == "thorough" else 24))
    X = gen.normal(draw, (n, f))
    if draw(st.booleans()):
        X = X * np.exp(gen.normal(draw, (f,)))
    offsets = draw(st.integers(0, 3)) == 0
    if offsets:
        X = X + 2.0 + np.abs(gen.normal(draw, (f,)))          # uncentred data: positive features ...
    planted = draw(st.booleans())
    if planted:
        if f >= g:
            Q = np.linalg.qr(gen.normal(draw, (f, g)))[0]
        else:
            Q = np.linalg.qr(gen.normal(draw, (g, f)))[0].T
        y = X @ Q
    else:
        y = X @ gen.normal(draw, (f, g)) + draw(st.sampled_from([0.0, 0.3, 2.0])) * gen.normal(draw, (n, g))
        if offsets:
            y = y - y.mean(0) - 3.0 * (1.0 + np.abs(y).max())    # ... and a strongly negative target offset (the sign of the map matters)
        elif min(f, g) >= 2 and draw(st.integers(0, 4)) == 0:
            # a target that depends only very weakly on X: full-rank but ill-conditioned linear fit (sigma_min / sigma_max ~ 1e-6)
            y = y.copy()
            y[:, -1] = (X @ gen.normal(draw, (f,))) * draw(st.sampled_from([1e-6, 3e-7]))
    return {"X": X, "y": y, "planted": planted, "projector": draw(st.booleans()),
            "estimator": draw(st.sampled_from(["default", "lr_noint", "ridge", "ridge1", "ridge50"])), "offsets": offsets,
            "Xnew": gen.normal(draw, (5, f)) * draw(st.sampled_from([0.1, 1.0, 30.0])), "cseed": draw(gen.SEEDS),
            "prior_use": draw(st.booleans()), "np_flag": draw(st.integers(0, 3)) == 0}


def strategy(tier):
    return strategy_(tier)


def rand_orth(rng, r):
    if r == 1:
        return np.array([[float(rng.choice([-1.0, 1.0]))]])
    Q, R = np.linalg.qr(rng.normal(size=(r, r)))
    return Q * np.sign(np.diag(R))


def small_rot(rng, r, eps):
    A = rng.normal(size=(r, r)) * eps
    return np.linalg.qr(np.eye(r) + A - A.T)[0]


def check(case, ctx):
    X, y, proj = case["X"], case["y"], case["projector"]
    if case.get("np_flag"):
        # a boolean that comes out of a NumPy array (e.g. a parameter grid) is still a boolean
        proj = np.bool_(proj)
        ctx.cls("flag=np.bool_")
    n, f = X.shape
    g = y.shape[1]
    ctx.cls("mode=%s" % ("projector" if proj else "padded"), "f%sg" % ("<" if f < g else "=" if f == g else ">"),
            "planted=%s" % case["planted"], "estimator=" + case["estimator"], "offsets=%s" % bool(case.get("offsets")))
    def mk_est():
        return {"default": None, "lr_noint": LinearRegression(fit_intercept=False), "ridge": Ridge(alpha=1e-10, fit_intercept=False),
                "ridge1": Ridge(alpha=1.0, fit_intercept=False), "ridge50": Ridge(alpha=50.0, fit_intercept=True)}[case["estimator"]]
    est = mk_est()
    rng = np.random.default_rng(case["cseed"])
    if est is not None and case.get("prior_use", True):
        # the same estimator objects were used before, on other data of the same shape: nothing may carry over
        with ctx.lib("prior-fit"):
            o = OR(use_orthogonal_projector=proj, linear_estimator=est)
            o.fit(rng.normal(size=X.shape), rng.normal(size=y.shape))
            ctx.cls("prior_use")
    else:
        o = OR(use_orthogonal_projector=proj, linear_estimator=est)
    with ctx.lib("fit"):
        o.fit(X, y)
        W = np.asarray(o.coef_).T
        pred = o.predict(X)
        pn = o.predict(case["Xnew"])
    ny = max(1.0, float(np.linalg.norm(y)))
    if proj:
        ctx.true("coef-shape", W.shape == (f, g), "coef_.T shape %s for %d features, %d targets" % (W.shape, f, g))
        if W.shape != (f, g):
            return
        sv = np.linalg.svd(W, compute_uv=False)
        r = min(f, g)
        ctx.true("partial-isometry", bool(np.all(np.abs(sv[:r] - 1) <= 1e-8)), "singular values of the map: %s" % np.round(sv, 10))
        res = float(np.linalg.norm(y - pred))
        # competitors: rotations between the reduced spaces of the underlying linear fit
        ref = (mk_est() or LinearRegression()).fit(X, y)
        coef = np.reshape(ref.coef_.T, (f, -1))
        U, s, Vt = np.linalg.svd(coef, full_matrices=False)
        rr = U.shape[1]
        well = s[-1] > 1e-8 * s[0] if s[0] > 0 else False
        if well:
            Rs = U.T @ W @ Vt.T
            ctx.true("rotation-between-reduced-spaces", float(np.abs(Rs.T @ Rs - np.eye(rr)).max()) <= 1e-8 and
                     float(np.abs(U @ Rs @ Vt - W).max()) <= 1e-8, "coef_ is not U R V^T with orthogonal R on the range of the linear fit")
            for i in range(14):
                R = rand_orth(rng, rr) if i < 8 else Rs @ small_rot(rng, rr, 1e-2 if i % 2 else 1e-3)
                c = float(np.linalg.norm(y - X @ U @ R @ Vt))
                ctx.count("competitors")
                if c < res - 1e-9 * max(1.0, res):
                    ctx.fail("competitor-better", "a rotation between the reduced spaces has residual %.10g < %.10g" % (c, res))
                    break
        else:
            ctx.skip("projector: underlying linear fit is rank deficient")
        if case["planted"] and case["estimator"] in ("default", "lr_noint", "ridge"):
            # recovery is claimed for an (essentially) exact underlying linear fit; a strongly regularised estimator shrinks
            # the coefficient matrix and with it the reduced spaces
            smin = float(np.linalg.svd(X, compute_uv=False)[-1])
            bias = 10 * 1e-10 / max(smin ** 2, 1e-300) if case["estimator"] == "ridge" else 0.0     # shrinkage of Ridge(1e-10)
            ctx.true("recovery", res <= (1e-7 + bias) * ny, "planted orthogonal map not recovered: residual %.3e (|y| %.3e)" % (res, ny))
        ctx.true("pred-shape", pred.shape == (n, g), "predict shape %s" % (pred.shape,))
    else:
        mx = max(f, g)
        ctx.true("coef-shape", W.shape == (mx, mx), "coef_ shape %s, expected (%d,%d)" % (W.shape, mx, mx))
        if W.shape != (mx, mx):
            return
        ctx.true("orthogonal", float(np.abs(W.T @ W - np.eye(mx)).max()) <= 1e-8, "W^T W differs from I by %.3e" % np.abs(W.T @ W - np.eye(mx)).max())
        Xp = np.pad(X, [(0, 0), (0, mx - f)])
        yp = np.pad(y, [(0, 0), (0, mx - g)])
        res = float(np.linalg.norm(yp - Xp @ W))
        ctx.close("predict==padded-X@W", pred, Xp @ W, 1e-10 * max(1.0, np.abs(Xp).max()), "predict vs padded product")
        for i in range(14):
            C = rand_orth(rng, mx) if i < 8 else W @ small_rot(rng, mx, 1e-2 if i % 2 else 1e-3)
            c = float(np.linalg.norm(yp - Xp @ C))
            ctx.count("competitors")
            if c < res - 1e-9 * max(1.0, res):
                ctx.fail("competitor-better", "an orthogonal matrix has residual %.10g < %.10g" % (c, res))
                break
        if case["planted"] and f <= g:
            ctx.true("recovery", res <= 1e-7 * ny, "planted orthogonal map not recovered: residual %.3e" % res)
    # the smallest admissible training set: one sample (the best orthogonal map turns x onto the direction of y)
    if not proj and case["cseed"] % 4 == 0:
        with ctx.lib("fit(one sample)"):
            o1 = OR(use_orthogonal_projector=False).fit(X[:1], y[:1])
            W1 = np.asarray(o1.coef_).T
        mx = max(f, g)
        x1, y1 = np.pad(X[0], (0, mx - f)), np.pad(y[0], (0, mx - g))
        ctx.true("one-sample:orthogonal", W1.shape == (mx, mx) and float(np.abs(W1.T @ W1 - np.eye(mx)).max()) <= 1e-8, "coef_ of a one-sample fit is not orthogonal")
        if W1.shape == (mx, mx):
            r1 = float(np.linalg.norm(y1 - x1 @ W1))
            best = abs(float(np.linalg.norm(x1) - np.linalg.norm(y1)))
            ctx.true("one-sample:optimal", r1 <= best + 1e-9 * max(1.0, float(np.linalg.norm(y1))), "one-sample residual %.9g, a reflection reaches %.9g" % (r1, best))
        ctx.count("one_sample_fits")
    # norm non-expansion on new and training data
    for nm, A, B in (("train", X, pred), ("new", case["Xnew"], pn)):
        na, nb = np.linalg.norm(A, axis=1), np.linalg.norm(B, axis=1)
        ctx.true("norm-non-expanding:" + nm, bool(np.all(nb <= na * (1 + 1e-9) + 1e-300)),
                 "a prediction has norm %.9g > input norm %.9g" % (nb.max(), na[np.argmax(nb - na)]))
    if f != g or case["planted"]:
        ctx.nontrivial = True


def summarize(case):
    return {"n": int(case["X"].shape[0]), "features": int(case["X"].shape[1]), "targets": int(case["y"].shape[1]),
            "planted": case["planted"], "projector": case["projector"], "estimator": case["estimator"],
            "X_first_row": np.round(case["X"][0], 4).tolist()}

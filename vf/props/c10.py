"""C10 - Ridge2FoldCV equals explicit two-fold cross-validated regularised least squares."""

import numpy as np
from hypothesis import strategies as st
from hypothesis.extra import numpy as hnp
from sklearn.metrics import mean_squared_error, r2_score
from sklearn.model_selection import KFold, ShuffleSplit

from skmatter.linear_model import Ridge2FoldCV
from vf import gen

ID = "C10"
TITLE = "Ridge2FoldCV equals explicit two-fold cross-validated regularised least squares"
TECHNIQUE = ("Hypothesis PBT against an independent explicit two-fold solver (numerical row space by full SVD, Tikhonov through an "
             "augmented least-squares system, cut-off through lstsq on the retained directions) with a bracketed rank threshold "
             "deciding ambiguity; sklearn metric functions called directly")
LEVEL = ("Generated-input exploration over tall / wide / duplicated-column / exactly rank-deficient and badly scaled X, alpha grids, "
         "both alpha types and regularisation methods, three scorers and three ways of specifying the folds: cv_values_, alpha_, "
         "best_score_, coef_ (bounded, directions below the numerical rank excluded) and predict are compared with the explicit "
         "computation; 1-D targets; a fixed set of generated cases runs with n_jobs=2 in the main process. No absence claim: strength = the counted distinct non-trivial cases in the evidence.")
BUDGET = {"quick": 500, "thorough": 15000}
RULE = ("Cases: X 6..19 x 2..11 (thorough to 40 x 24) with column scales e^{N(0,s)}, s in {0,1,2}, kinds full / duplicated and summed "
        "columns / exactly rank-deficient products with integer factors, global scale 10^[-3,6]; 1..3 targets = X B/max|X| + noise; "
        "alphas: 1..5 values (ascending, descending or shuffled; repeated values possible), absolute 10^[-12,3] or relative {0,1e-9} u 10^[-9,-0.05]; methods tikhonov / cutoff; scorers "
        "None / neg MSE / neg RMSE / r2; folds from cv=None (shuffle on/off, seeds), an explicit (train,test) pair covering all samples or only part of them, KFold(3) or ShuffleSplit(train_size=.4, test_size=.4); n_jobs "
        "None in the worker processes, 2 for a fixed set of generated cases run in the main process (joblib does not parallelise inside daemonic workers); 1-D y when one target.  The oracle is evaluated with its rank threshold divided and multiplied by 30; if the two "
        "evaluations differ the data does not determine the answer and the case is skipped.  Non-trivial: >= 2 alphas with different "
        "CV values, or rank-deficient X; distinct = SHA-1 of the canonical case.")
ASSUMPTIONS = [
    "relative alphas are scaled by the larger of the two folds' largest singular values, in the folds and in the final fit (as implemented and documented: 'relative to the largest eigenvalue')",
    "cases whose oracle value changes when the numerical-rank threshold is moved by a factor 30 either way are ambiguous and skipped (counted)",
    "cut-off method: a singular value within 1e-9 x sigma_max of a scaled alpha is ambiguous",
    "tolerance 1e-6 x max(1, |value|)",
]

EPS = np.finfo(float).eps


@st.composite
def strategy_(draw, tier):
    big = tier == "thorough"
    n = draw(st.integers(6, 40 if big else 19))
    m = draw(st.integers(1, 24 if big else 11))
    spread = draw(st.sampled_from([0.0, 1.0, 2.0]))
    X = gen.normal(draw, (n, m)) * np.exp(gen.normal(draw, (m,)) * spread)
    kind = draw(st.sampled_from(["full", "full", "dupcol", "lowrank"]))
    if kind == "dupcol" and m > 2:
        X[:, -1] = X[:, 0]
        X[:, -2] = X[:, 1] + X[:, 0]
    if kind == "lowrank" and m > 2:
        r = draw(st.integers(1, max(1, min(n // 2, m) - 1)))
        F = draw(hnp.arrays(np.int64, (r, m), elements=st.integers(-2, 2))).astype(float)
        X = gen.normal(draw, (n, r)) @ F
    X = X * 10.0 ** draw(st.integers(-3, 6))
    if np.abs(X).max() == 0:
        X = gen.normal(draw, (n, m))
        kind = "full"
    p = draw(st.integers(1, 3))
    y = X @ gen.normal(draw, (m, p)) / np.abs(X).max() + draw(st.sampled_from([0.0, 0.1, 1.0])) * gen.normal(draw, (n, p))
    atype = draw(st.sampled_from(["absolute", "relative"]))
    na = draw(st.integers(1, 5))
    if atype == "absolute":
        alphas = np.sort(10.0 ** draw(hnp.arrays(np.float64, (na,), elements=st.floats(-12, 3, width=32))))
    else:
        tail = 10.0 ** draw(hnp.arrays(np.float64, (max(1, na - 1),), elements=st.floats(-9, -0.0625, width=32)))
        alphas = np.sort(np.r_[draw(st.sampled_from([0.0, 1e-9])), tail])
    order = draw(st.sampled_from(["ascending", "ascending", "descending", "shuffled"]))     # the grid is the user's, in any order
    if order == "descending":
        alphas = alphas[::-1].copy()
    elif order == "shuffled":
        alphas = alphas[gen.permutation(draw, len(alphas))]
    cvk = draw(st.sampled_from(["none", "explicit", "kfold", "partial", "shufflesplit"]))
    case = {"X": X, "y": y, "kind": kind, "alphas": alphas, "alpha_type": atype,
            "method": draw(st.sampled_from(["tikhonov", "cutoff"])),
            "scoring": draw(st.sampled_from([None, "neg_mean_squared_error", "neg_root_mean_squared_error", "r2"])),
            "cv": cvk, "shuffle": draw(st.booleans()), "seed": draw(st.integers(0, 99)),
            "n_jobs": None, "Xnew": gen.normal(draw, (3, m)), "y1d": p == 1 and draw(st.booleans())}
    if cvk == "explicit":
        perm = gen.permutation(draw, n)
        h = draw(st.integers(2, n - 2))
        case["train"], case["test"] = perm[:h], perm[h:]
    if cvk == "partial":        # the two folds need not cover all samples
        perm = gen.permutation(draw, n)
        h = draw(st.integers(2, n - 3))
        g = draw(st.integers(h + 2, n))
        case["train"], case["test"] = perm[:h], perm[h:g][: max(2, g - h - draw(st.integers(0, 1)))]
    return case


def strategy(tier):
    return strategy_(tier)


def parent_cases(tier):
    """n_jobs=2: joblib silently runs sequentially inside the daemonic worker processes of the runner, so the parallel
    path is exercised here, in the main process, on cases drawn from the same strategy with a fixed seed."""
    import hypothesis
    from hypothesis import HealthCheck, given, seed, settings
    out = []

    @seed(20261004)
    @settings(max_examples=24 if tier == "quick" else 120, database=None, deadline=None, derandomize=False,
              suppress_health_check=list(HealthCheck), phases=[hypothesis.Phase.generate])
    @given(strategy_(tier))
    def collect(case):
        if len(case["alphas"]) >= 3:
            case = dict(case)
            case["n_jobs"] = 2
            out.append(case)
    collect()
    return out


def solve(Xa, ya, alpha, method, thr):
    """Independent regularised least squares restricted to the numerical row space (sv > thr)."""
    U, s, Vt = np.linalg.svd(Xa, full_matrices=True)
    s = s[: min(Xa.shape)]
    r = int((s > thr).sum())
    V = Vt[:r].T
    Xr = Xa @ V
    if r == 0:
        return np.zeros((Xa.shape[1], ya.shape[1]))
    if method == "tikhonov":
        A = np.vstack([Xr, np.sqrt(alpha) * np.eye(r)])
        b = np.vstack([ya, np.zeros((r, ya.shape[1]))])
        return V @ np.linalg.lstsq(A, b, rcond=1e-300)[0]
    keep = s[:r] > alpha
    Vk = V[:, keep]
    if Vk.shape[1] == 0:
        return np.zeros((Xa.shape[1], ya.shape[1]))
    return Vk @ np.linalg.lstsq(Xa @ Vk, ya, rcond=None)[0]


def score(name, yt, yp):
    if name == "neg_mean_squared_error":
        return -mean_squared_error(yt, yp)
    if name == "neg_root_mean_squared_error":
        return -float(np.mean(np.sqrt(np.mean((yt - yp) ** 2, axis=0))))
    return r2_score(yt, yp)


def folds(case):
    X = case["X"]
    if case["cv"] == "none":
        rs = case["seed"] if case["shuffle"] else None
        tr, te = next(KFold(2, shuffle=case["shuffle"], random_state=rs).split(X))
        return None, dict(shuffle=case["shuffle"], random_state=rs), tr, te
    if case["cv"] in ("explicit", "partial"):
        tr, te = np.asarray(case["train"]), np.asarray(case["test"])
        return [(tr, te)], {}, tr, te
    if case["cv"] == "shufflesplit":
        ss = ShuffleSplit(n_splits=2, train_size=0.4, test_size=0.4, random_state=case["seed"])
        tr, te = next(ss.split(X))
        return ss, {}, tr, te
    kf = KFold(3, shuffle=True, random_state=case["seed"])
    tr, te = next(kf.split(X))
    return kf, {}, tr, te


def check(case, ctx):
    X, y, alphas, atype, method = case["X"], case["y"], case["alphas"], case["alpha_type"], case["method"]
    n, m = X.shape
    name = case["scoring"] or "neg_mean_squared_error"
    ctx.cls("kind=" + case["kind"], "alpha_type=" + atype, "method=" + method, "scoring=" + str(case["scoring"]), "cv=" + case["cv"], "grid=" + ("single" if len(alphas) < 2 else "ascending" if np.all(np.diff(alphas) >= 0) else "unsorted"),
            "shape=%s" % ("tall" if n > m else "wide"), "n_jobs=%s" % case["n_jobs"])
    cv, kw, tr, te = folds(case)
    est = Ridge2FoldCV(alphas=alphas.copy(), alpha_type=atype, regularization_method=method, scoring=case["scoring"], cv=cv,
                       n_jobs=case["n_jobs"], **kw)
    y1d = bool(case.get("y1d"))
    if int(case.get("seed", 0)) % 3 == 0:
        # history: the same object was first configured with other folds (shuffled 2-fold, another random_state) and other
        # alphas, fitted on data of the same size, then re-configured with set_params to the configuration under test.
        # Everything below judges the re-configured estimator against the folds it is configured with *now*.
        ctx.cls("reconfigured-before-fit")
        target = est.get_params(deep=False)
        with ctx.lib("fit-before-reconfiguration"):
            est.set_params(cv=None, shuffle=True, random_state=int(case.get("seed", 0)) + 1, alphas=np.asarray(alphas)[::-1] * 0.5)
            est.fit(X[::-1], (y[:, 0] if y1d else y)[::-1])
            est.set_params(**target)
    with ctx.lib("fit"):
        est.fit(X, y[:, 0] if y1d else y)
        pn = est.predict(case["Xnew"])
    if y1d:
        ctx.cls("y1d")
        ctx.true("1d-shapes", np.asarray(est.coef_).shape == (m,) and np.asarray(pn).shape == (len(case["Xnew"]),),
                 "1-D y gives coef_ %s and predictions %s" % (np.asarray(est.coef_).shape, np.asarray(pn).shape))
        est.coef_ = np.asarray(est.coef_).reshape(1, -1)
        pn = np.asarray(pn).reshape(len(case["Xnew"]), 1)
    sf = np.linalg.svd(X, compute_uv=False)
    s1 = np.linalg.svd(X[tr], compute_uv=False)
    s2 = np.linalg.svd(X[te], compute_uv=False)
    scaled = alphas * (max(s1.max(), s2.max()) if atype == "relative" else 1.0)

    def allcv(fac):
        out = []
        for a in scaled:
            w1 = solve(X[tr], y[tr], a, method, max(X.shape) * EPS * fac * s1.max())
            w2 = solve(X[te], y[te], a, method, max(X.shape) * EPS * fac * s2.max())
            out.append((score(name, y[te], X[te] @ w1) + score(name, y[tr], X[tr] @ w2)) / 2)
        return np.array(out)

    rank_def = bool((sf > 1e-9 * sf.max()).sum() < min(n, m))
    allsv = np.r_[s1, s2, sf]
    # numerically null singular values are excluded by the rank rule whatever alpha is: only the others can sit at a cut-off
    allsv = allsv[allsv > 30 * max(X.shape) * EPS * sf.max()]
    if method == "cutoff" and allsv.size and np.any(np.abs(allsv[:, None] - scaled[None, :]) < 1e-9 * sf.max()):
        ctx.skip("ambiguous: singular value at a cut-off alpha")
        return
    lo, hi = allcv(1 / 30), allcv(30)
    if not (np.all(np.isfinite(lo)) and np.all(np.isfinite(hi))):
        ctx.skip("ambiguous: oracle not finite")
        return
    if np.any(np.abs(lo - hi) > 1e-7 * np.maximum(1, np.abs(lo))):
        ctx.skip("ambiguous: CV values depend on the rank threshold (bracket rule)")
        return
    cvv = lo
    rep = np.asarray(est.cv_values_, float)
    if not ctx.true("cv_values-shape", rep.shape == cvv.shape, "cv_values_ shape %s for %d alphas" % (rep.shape, len(alphas))):
        return
    tol = 1e-6 * np.maximum(1, np.abs(cvv))
    d = np.abs(cvv - rep)
    ctx.true("cv_values==explicit-2fold", bool(np.all(d <= tol)),
             "cv_values_ %s vs explicit two-fold %s (%s, %s, %s)" % (np.round(rep, 8).tolist(), np.round(cvv, 8).tolist(), method, atype, name))
    hit = np.where(alphas == est.alpha_)[0]
    if not ctx.true("alpha-in-grid", len(hit) >= 1, "alpha_=%r not in the grid" % est.alpha_):
        return
    best = cvv.max()
    ctx.true("alpha-is-best", bool(np.any(cvv[hit] >= best - 1e-6 * max(1, abs(best)))),
             "alpha_=%g has CV value %.9g, the best is %.9g" % (est.alpha_, cvv[hit].max(), best))
    ctx.true("best_score", abs(est.best_score_ - rep.max()) <= 1e-12 * max(1, abs(rep.max())), "best_score_ %r vs max cv %r" % (est.best_score_, rep.max()))
    # final coefficients for the chosen alpha (first index whose value is best: ties resolved like argmax)
    i = int(hit[np.argmax(cvv[hit])])
    thr = max(X.shape) * EPS * sf.max()
    wf, wf2 = solve(X, y, scaled[i], method, thr / 30), solve(X, y, scaled[i], method, thr * 30)
    coef = np.asarray(est.coef_)
    if not ctx.true("coef-shape", coef.shape == (y.shape[1], m), "coef_ shape %s" % (coef.shape,)):
        return
    if np.abs(wf - wf2).max() > 1e-7 * max(1, np.abs(wf).max()):
        ctx.skip("ambiguous: final solution depends on the rank threshold")
    else:
        ctx.close("coef==regularised-solution", coef.T, wf, 1e-6 * max(1, np.abs(wf).max()), "final coefficients (%s, %s)" % (method, atype))
        # boundedness: directions below the numerical rank excluded
        r = int((sf > 1e-9 * sf.max()).sum())
        smin = sf[r - 1]
        bound = 10 * np.linalg.norm(y) / smin
        ctx.true("coef-bounded", float(np.linalg.norm(coef)) <= bound, "|coef|=%.3e exceeds 10|y|/sigma_min,retained=%.3e" % (np.linalg.norm(coef), bound))
    ctx.close("predict==X@coef.T", pn, case["Xnew"] @ coef.T, 1e-12 * (1 + np.abs(coef).max() * 10), "predict on new data")
    if rank_def or (len(alphas) >= 2 and np.ptp(cvv) > 1e-9 * max(1, np.abs(cvv).max())):
        ctx.nontrivial = True
    if rank_def:
        ctx.cls("rank_deficient")


def summarize(case):
    return {"shape": list(case["X"].shape), "kind": case["kind"], "targets": int(case["y"].shape[1]), "alphas": np.asarray(case["alphas"]).tolist(),
            "alpha_type": case["alpha_type"], "method": case["method"], "scoring": case["scoring"], "cv": case["cv"],
            "shuffle": case["shuffle"], "seed": case["seed"], "n_jobs": case["n_jobs"], "max_abs_X": float(np.abs(case["X"]).max())}

"""C20 - prediction rigidities follow their closed form and scaling laws."""

import numpy as np
from hypothesis import strategies as st

from skmatter.metrics import componentwise_prediction_rigidity as CPR
from skmatter.metrics import local_prediction_rigidity as LPR
from vf import lifecycle as _lc


def _with_history(f):
    """Every call the check makes is preceded by a call with the *same list and array objects* temporarily holding other
    values (overwritten in place, restored bit-exactly): the metric functions are stateless by contract, so a result that
    depends on an earlier call (a cache keyed by id() or length) shows up in the oracles below."""
    def g(*a, **k):
        if _lc.enabled():
            saved = []
            for v in list(a) + list(k.values()):
                for arr in (v if isinstance(v, list) else [v]):
                    if isinstance(arr, np.ndarray) and arr.dtype.kind == "f" and arr.flags.writeable and arr.ndim == 2:
                        saved.append((arr, arr.copy()))
                        arr[...] = arr[::-1] * 0.75 + 0.125
            try:
                _lc._silently(f, *a, **k)
            finally:
                for arr, keep in reversed(saved):
                    arr[...] = keep
        return f(*a, **k)
    return g


CPR, LPR = _with_history(CPR), _with_history(LPR)
from vf import gen

ID = "C20"
TITLE = "Prediction rigidities follow their closed form and scaling laws"
TECHNIQUE = ("Hypothesis PBT against an independent closed form (explicit inverse), metamorphic relations (common rescaling, "
             "monotonicity in alpha) and cross-function identities (LCPR with one component = LPR, CPR of one environment = LCPR)")
LEVEL = ("Generated-input exploration over lists of structures with varying numbers of environments, feature dimensions, alpha over "
         "eleven orders of magnitude and random component partitions: values, shapes and order are compared with 1/(x (S^T S + alpha I)^-1 x^T) "
         "computed with an explicit inverse; positivity, scale invariance, monotonicity in alpha and the rank difference are checked. "
         "No absence claim: strength = the counted distinct non-trivial cases in the evidence.")
BUDGET = {"quick": 700, "thorough": 30000}
RULE = ("Cases: 1..7 training structures and 1..4 test structures (thorough: 12 / 6) with 1..5 environments each (single-environment "
        "structures included), feature dimension 1..6 (thorough 10), per-structure offsets, alpha = 10^u with u in [-8,3] relative to "
        "the scaled covariance, a drawn composition of the feature dimension into component blocks, common rescaling factors 10^[-3,3]; "
        "one extra sub-case with alpha = 0 and fewer structures than features for the rank difference.  Non-trivial: >= 2 training "
        "structures, >= 2 features and a test structure with >= 2 environments; distinct = SHA-1 of the canonical case.")
ASSUMPTIONS = [
    "alpha >= 1e-8 relative to the scaled covariance (below, pinv's own cut-off makes the value discontinuous)",
    "relative tolerance 1e-6 on rigidities (condition number up to 1e8 at the smallest alpha)",
]


@st.composite
def strategy_(draw, tier):
    big = tier == "thorough"
    d = draw(st.integers(1, 10 if big else 6))
    ns = draw(st.integers(1, 12 if big else 7))
    nt = draw(st.integers(1, 6 if big else 4))
    rng = gen.rng_of(draw)
    env = st.integers(1, 5)
    Xtr = [rng.normal(size=(draw(env), d)) + rng.normal(size=d) for _ in range(ns)]
    Xte = [rng.normal(size=(draw(env), d)) for _ in range(nt)]
    if draw(st.booleans()):
        # symmetry-equivalent atoms: a bitwise identical environment occurs twice (inside one structure and across structures)
        j = draw(st.integers(0, nt - 1))
        Xte[j] = np.vstack([Xte[j], Xte[j][:1]])
        if nt >= 2:
            Xte[(j + 1) % nt] = np.vstack([Xte[(j + 1) % nt], Xte[j][:1]])
    parts = []
    rem = d
    while rem > 0:
        p = draw(st.integers(1, rem))
        parts.append(p)
        rem -= p
    return {"Xtr": Xtr, "Xte": Xte, "alpha": 10.0 ** draw(st.floats(-8, 3, width=32)),
            "comp_dims": np.array(parts, dtype=int), "c": 10.0 ** draw(st.floats(-3, 3, width=32)),
            "alpha_factor": draw(st.sampled_from([1.5, 3.0, 100.0]))}


def strategy(tier):
    return strategy_(tier)


def closed_form(Xtr, alpha):
    A = np.vstack(Xtr)
    d = A.shape[1]
    sf = np.sqrt((A ** 2).mean(0).sum())
    S = np.array([x.mean(0) / sf for x in Xtr])
    Minv = np.linalg.inv(S.T @ S + alpha * np.eye(d))
    return sf, S, Minv


def check(case, ctx):
    Xtr, Xte, alpha, cd = case["Xtr"], case["Xte"], case["alpha"], case["comp_dims"]
    d = Xtr[0].shape[1]
    ctx.cls("d=%d" % d, "n_train=%d" % min(len(Xtr), 5), "log10alpha=%d" % int(np.floor(np.log10(alpha))), "n_comp=%d" % len(cd))
    sf, S, Minv = closed_form(Xtr, alpha)
    if not np.isfinite(sf) or sf == 0:
        ctx.skip("zero features")
        return
    with ctx.lib("LPR"):
        lpr, rd = LPR(Xtr, Xte, alpha)
    ctx.true("lpr-length", len(lpr) == len(Xte), "%d entries for %d test structures" % (len(lpr), len(Xte)))
    for i, xt in enumerate(Xte):
        ref = np.array([1.0 / ((x / sf) @ Minv @ (x / sf)) for x in xt])
        got = np.asarray(lpr[i])
        if not ctx.true("lpr-shape", got.shape == (len(xt),), "structure %d: shape %s for %d environments" % (i, got.shape, len(xt))):
            return
        ctx.close("lpr==closed-form", got / ref, np.ones(len(xt)), 1e-6, "LPR of test structure %d (relative)" % i)
        ctx.true("lpr-positive", bool(np.all(got > 0)), "non-positive LPR")
    # every test structure is scored independently of the other test structures in the call
    if len(Xte) >= 2:
        with ctx.lib("LPR-single"):
            solo = [LPR(Xtr, [xt], alpha)[0][0] for xt in Xte]
        for a_, b_ in zip(lpr, solo):
            ctx.close("structure-independence:lpr", np.asarray(b_) / np.asarray(a_), np.ones(len(a_)), 1e-12, "a test structure scored alone vs in a list")
        with ctx.lib("CPR-single"):
            cps = [CPR(Xtr, [xt], alpha, cd) for xt in Xte]
            cpa = CPR(Xtr, Xte, alpha, cd)
        for i in range(len(Xte)):
            ctx.close("structure-independence:cpr", np.asarray(cps[i][0])[0] / np.asarray(cpa[0])[i], np.ones(len(cd)), 1e-12, "CPR of structure %d alone vs in a list" % i)
            ctx.close("structure-independence:lcpr", np.asarray(cps[i][1][0]) / np.asarray(cpa[1][i]), np.ones_like(np.asarray(cpa[1][i])), 1e-12, "LCPR of structure %d alone vs in a list" % i)
    # scaling law and monotonicity
    c = case["c"]
    with ctx.lib("LPR-rescaled"):
        lpr2, _ = LPR([c * x for x in Xtr], [c * x for x in Xte], alpha)
        lpr3, _ = LPR(Xtr, Xte, alpha * case["alpha_factor"])
    for a_, b_ in zip(lpr, lpr2):
        ctx.close("scale-invariance", np.asarray(b_) / np.asarray(a_), np.ones(len(a_)), 1e-6, "LPR after rescaling all features by %g" % c)
    for a_, b_ in zip(lpr, lpr3):
        ctx.true("monotone-in-alpha", bool(np.all(np.asarray(b_) >= np.asarray(a_) * (1 - 1e-9))),
                 "LPR decreases when alpha grows by %g" % case["alpha_factor"])
    ctx.true("rank-diff(alpha>0)", rd == d - np.linalg.matrix_rank(S.T @ S + alpha * np.eye(d)), "rank_diff %r" % rd)
    # component-wise variants
    with ctx.lib("CPR"):
        cpr, lcpr, rd2 = CPR(Xtr, Xte, alpha, cd)
    off = np.r_[0, np.cumsum(cd)]
    ctx.true("cpr-shape", np.asarray(cpr).shape == (len(Xte), len(cd)) and len(lcpr) == len(Xte), "CPR shape %s" % (np.asarray(cpr).shape,))
    for i, xt in enumerate(Xte):
        L = np.asarray(lcpr[i])
        if not ctx.true("lcpr-shape", L.shape == (len(xt), len(cd)), "structure %d: LCPR shape %s" % (i, L.shape)):
            return
        for ci in range(len(cd)):
            msk = np.zeros(d)
            msk[off[ci]:off[ci + 1]] = 1
            with np.errstate(divide="ignore"):
                ref = np.array([1.0 / ((x / sf * msk) @ Minv @ (x / sf * msk)) for x in xt])
                xa = xt.mean(0) / sf * msk
                refc = 1.0 / (xa @ Minv @ xa)
            ctx.close("lcpr==closed-form", L[:, ci] / ref, np.ones(len(xt)), 1e-6, "LCPR structure %d component %d" % (i, ci))
            ctx.close("cpr==closed-form", cpr[i, ci] / refc, 1.0, 1e-6, "CPR structure %d component %d" % (i, ci))
            ctx.true("cpr-positive", cpr[i, ci] > 0 and bool(np.all(L[:, ci] > 0)), "non-positive CPR/LCPR")
            if len(xt) == 1:
                ctx.close("cpr(one environment)==lcpr", cpr[i, ci] / L[0, ci], 1.0, 1e-9, "structure %d component %d" % (i, ci))
    with ctx.lib("CPR-single-component"):
        c1, l1, _ = CPR(Xtr, Xte, alpha, np.array([d]))
    for a_, b_ in zip(l1, lpr):
        ctx.close("lcpr(single component)==lpr", np.asarray(a_)[:, 0] / np.asarray(b_), np.ones(len(b_)), 1e-9, "LCPR with one block vs LPR")
    ctx.true("rank-diff-consistent", rd2 == rd, "CPR rank_diff %r vs LPR %r" % (rd2, rd))
    # rank difference with alpha = 0 and fewer structures than features
    if len(Xtr) < d:
        with ctx.lib("LPR(alpha=0)"):
            _, rd0 = LPR(Xtr, Xte, 0.0)
        expect = d - np.linalg.matrix_rank(S.T @ S)
        ctx.true("rank-diff(alpha=0)", rd0 == expect and rd0 >= d - len(Xtr), "rank_diff %r, expected %r" % (rd0, expect))
        ctx.count("rank_deficient_checked")
    # ... and with an alpha that is lost in floating point the regularised covariance keeps the rank of the data
    for tiny in (1e-20, 1e-30):
        with ctx.lib("LPR(alpha=%g)" % tiny):
            _, rdt = LPR(Xtr, Xte, tiny)
            _, _, rdc = CPR(Xtr, Xte, tiny, cd)
        expect = d - np.linalg.matrix_rank(S.T @ S + tiny * np.eye(d))
        ctx.true("rank-diff(alpha->0)", rdt == expect and rdc == expect, "alpha=%g: rank_diff %r / %r, feature dimension minus rank = %r" % (tiny, rdt, rdc, expect))
    if len(Xtr) >= 2 and d >= 2 and max(len(x) for x in Xte) >= 2:
        ctx.nontrivial = True


def summarize(case):
    return {"n_train": len(case["Xtr"]), "train_envs": [int(len(x)) for x in case["Xtr"]], "test_envs": [int(len(x)) for x in case["Xte"]],
            "d": int(case["Xtr"][0].shape[1]), "alpha": case["alpha"], "comp_dims": case["comp_dims"].tolist(), "c": case["c"]}

"""C07 - CUR and PCov-CUR select by leverage score on the orthogonalised residual."""

import numpy as np
from hypothesis import strategies as st

from vf import gen, sel as S

ID = "C07"
TITLE = "CUR and PCov-CUR select by leverage score on the orthogonalised residual"
TECHNIQUE = 'Hypothesis PBT against dense SVD/eigh leverage scores on an independent projection residual; scores used are recorded by a wrapper; gap-aware'
LEVEL = 'Generated-input exploration: each selection maximises the independently computed importance score as of the last refresh, recorded scores equal the oracle, exposed residual equals the projection and is orthogonal to selected items, duality and mixing=1 relations. No absence claim: strength = the counted distinct non-trivial cases in the evidence.'
BUDGET = {"quick": 1200, "thorough": 24000}
RULE = ("Cases: CUR / PCovCUR x {feature, sample}; X kinds generic, eighths (near ties), lowrank, dup and nearly low-rank (rank-r part + 1e-5 full-rank part) with a global scale in "
        "{1e-7,1e-3,.1,1,10} (1e3 only with tolerance 1e-8), 4..13 x 4..10 (thorough: to 40 x 24); numerical rank r is measured and the number of selections is drawn in "
        "[1, r-k]; y 1-D; k in 1..3 (k < min shape); mixing {0,.2,.5,.8,1}; recompute_every {0,1,2,3}; tolerance {1e-12,1e-8}; 30% of the cases reach the request through a warm start whose first part used another refresh interval (final residual judged).  "
        "Oracle: residual by an independent QR projection, unexplained y by lstsq, importance score from dense SVD / eigh at the "
        "most recent refresh point; the score actually used at each step is recorded by a harness-side wrapper of score().  A step "
        "is judged only when the gap between the k-th and (k+1)-th singular/eigen value is > 1e-6 (tolerance 1e-7/gap).  "
        "Non-trivial: >= 2 judged steps; distinct = SHA-1 of the canonical case.")
ASSUMPTIONS = [
    "steps whose k-th spectral gap is below 1e-6 are skipped (counted), the leading subspace is then not determined by the data",
    "feature PCov-CUR steps with an eigenvalue of the residual covariance inside [1e-14,1e-10] (grey zone of rcond=1e-12) are skipped",
]


@st.composite
def strategy_(draw, tier):
    big = tier == "thorough" or draw(st.integers(0, 9)) == 0        # (a tenth of the quick cases are larger than any sketch size k + 10)
    n = draw(st.integers(4, 40 if big else 13))
    m = draw(st.integers(4, 24 if big else 10))
    if big and tier != "thorough":
        n, m = max(n, 18), max(m, 16)
    kind = draw(st.sampled_from(["generic", "generic", "eighths", "lowrank", "dup", "nearlowrank", "narrowint"]))
    if kind == "nearlowrank":
        r0 = draw(st.integers(1, max(1, min(n, m) - 2)))
        X0 = gen.normal(draw, (n, r0)) @ gen.normal(draw, (r0, m)) + 1e-5 * gen.normal(draw, (n, m))
    else:
        X0 = None
    # the documented `tolerance` treats items whose residual norm is below it as zero: keep the data scale well above it
    tolerance = draw(st.sampled_from([1e-12, 1e-12, 1e-8]))
    if tolerance == 1e-8:
        scale = draw(st.sampled_from([1.0, 10.0, 0.1, 1e3]))
    elif X0 is not None:
        scale = draw(st.sampled_from([1e-3, 1.0, 10.0]))
    else:
        # with the default absolute tolerance 1e-12 the rounding noise of the data (~1e-16 x scale) must stay below it,
        # otherwise a dependent item picked through a stale score is "orthogonalised" against noise
        scale = draw(st.sampled_from([1.0, 1.0, 10.0, 0.1, 1e-3, 1e-7]))
    X = (X0 if X0 is not None else gen.matrix(draw, n, m, kind)) * (1.0 if kind == "narrowint" else scale)
    cls = draw(st.sampled_from(["CUR", "PCovCUR"]))
    direction = draw(st.sampled_from(["feature", "sample"]))
    k = draw(st.integers(1, min(3, min(n, m) - 1)))
    N_items = n if direction == "sample" else m
    if cls == "PCovCUR" and draw(st.integers(0, 7)) == 0:
        # the targets add rank to the PCovR-modified matrix: k may reach the smaller dimension of X (it only has to stay below the
        # number of items)
        k = min(min(n, m), N_items - 1, 6)
    r = gen.numerical_rank(X, 1e-9)
    hi = max(1, r - k)
    nsel = draw(st.integers(max(1, hi // 2) if draw(st.booleans()) else 1, hi))
    params = {"k": k, "recompute_every": draw(st.sampled_from([1, 1, 0, 2, 3])),
              "tolerance": tolerance}
    if cls == "PCovCUR":
        params["mixing"] = draw(st.sampled_from([0.0, 0.2, 0.5, 0.8, 1.0]))
    y = S.draw_y(draw, n, X)
    if kind == "narrowint":
        y = S.narrow(draw, X, y, params)
    # optionally reach nsel through a warm start, possibly with another refresh interval for the first part
    warm = None
    if nsel >= 2 and draw(st.integers(0, 9)) < 3:
        warm = {"first_n": draw(st.integers(1, nsel - 1)), "first_recompute": draw(st.sampled_from([0, 1, 2, params["recompute_every"]]))}
    return {"cls": cls, "direction": direction, "kind": kind, "X": X, "y": y, "params": params, "nsel": nsel, "rank": r, "warm": warm,
            "nform": draw(st.sampled_from(["int", "int", "fraction"]))}


def strategy(tier):
    return strategy_(tier)


def span_basis(A):
    """Orthonormal basis of the column span of A (numerical rank cut 1e-9 relative): the selected
    items may be linearly dependent (duplicates picked through a stale score), so plain QR would
    project out an arbitrary extra direction."""
    U, s, _ = np.linalg.svd(A, full_matrices=False)
    if s.size == 0 or s[0] == 0:
        return U[:, :0]
    return U[:, s > 1e-9 * s[0]]


def proj_out(X, sel, axis):
    if len(sel) == 0:
        return X.copy()
    if axis == 1:
        Q = span_basis(X[:, sel])
        return X - Q @ (Q.T @ X)
    Q = span_basis(X[sel].T)
    return X - (X @ Q) @ Q.T


def pi_cur(Xr, axis, k):
    U, s, Vt = np.linalg.svd(Xr, full_matrices=False)
    if s[0] == 0:
        return None, 0.0
    gap = (s[k - 1] - s[k]) / s[0] if k < len(s) else 1.0
    if axis == 1:
        return (Vt[:k] ** 2).sum(0), gap
    return (U[:, :k] ** 2).sum(1), gap


def pi_pcov(Xr, yr, axis, k, mix):
    if axis == 0:
        M = mix * Xr @ Xr.T + (1 - mix) * yr @ yr.T
    else:
        C = Xr.T @ Xr
        w, U = np.linalg.eigh(C)
        if np.any((w > 1e-14) & (w < max(1e-10, 1e-9 * w.max()))):
            return None, 0.0
        keep = w > 1e-12
        Cis = (U[:, keep] / np.sqrt(w[keep])) @ U[:, keep].T
        Z = Cis @ (Xr.T @ yr)
        M = mix * C + (1 - mix) * (Z @ Z.T)
    w, U = np.linalg.eigh(M)
    w = w[::-1]
    U = U[:, ::-1]
    if abs(w[0]) == 0:
        return None, 0.0
    gap = (w[k - 1] - w[k]) / abs(w[0]) if k < len(w) else 1.0
    return (U[:, :k] ** 2).sum(1), gap


def oracle_pi(case, sel_idx):
    X, y = case["X"], case["y"].reshape(-1, 1)
    axis = 0 if case["direction"] == "sample" else 1
    k = case["params"]["k"]
    if sel_idx:
        # nearly dependent selected items: neither the projection nor the least-squares fit of y is determined
        # (the library cuts at its `tolerance`, 1e-12 or 1e-8, relative to the largest singular value)
        A_sel = X[:, sel_idx] if axis == 1 else X[sel_idx].T
        sv = np.linalg.svd(A_sel, compute_uv=False)
        if sv[0] > 0 and np.any((sv / sv[0] > 1e-14) & (sv / sv[0] < 1e-6)):
            return None, 0.0
    Xr = proj_out(X, sel_idx, axis)
    xmag = float(np.abs(X).max())
    if case["cls"] == "CUR":
        if float(np.abs(Xr).max()) <= 1e-9 * xmag:        # residual is rounding noise: its singular vectors are arbitrary
            return None, 0.0
        return pi_cur(Xr, axis, k)
    if sel_idx:
        if axis == 1:
            b = np.linalg.lstsq(X[:, sel_idx], y, rcond=None)[0]
            yr = y - X[:, sel_idx] @ b
        else:
            b = np.linalg.lstsq(X[sel_idx], y[sel_idx], rcond=None)[0]
            yr = y - X @ b
    else:
        yr = y
    ymag = float(np.abs(y).max())
    mix = case["params"]["mixing"]
    x_gone = float(np.abs(Xr).max()) <= 1e-9 * xmag
    y_gone = float(np.abs(yr).max()) <= 1e-9 * max(ymag, 1e-300)
    if (x_gone or mix == 0.0) and (y_gone or mix == 1.0 or (axis == 1 and x_gone)):
        return None, 0.0                                    # the modified matrix is rounding noise
    return pi_pcov(Xr, yr, axis, k, mix)


def walk(case, ctx, idx, pis, tag=""):
    """Judge the sequence idx (with recorded scores pis); returns (#judged, all_judged_and_tie_free)."""
    N = S.n_items(case["X"], case["direction"])
    r = case["params"]["recompute_every"]
    pi = None
    gap_ok = False
    judged = 0
    clean = True
    tol = 0.0
    for t in range(len(idx)):
        sel = [int(i) for i in idx[:t]]
        if t == 0 or (r != 0 and t % r == 0):
            pi, gap = oracle_pi(case, sel)
            gap_ok = pi is not None and gap > 1e-6
            if gap_ok:
                tol = min(1e-7 / gap, 1e-3)
        if not gap_ok:
            ctx.skip("step: spectral gap below 1e-6 / grey zone")
            clean = False
            continue
        judged += 1
        p = pi.copy()
        p[sel] = -np.inf
        it = int(idx[t])
        if p[it] < p.max() - tol:
            ctx.fail(tag + "not-max-score", "step %d picks item %d with oracle score %.9g, best unselected item has %.9g (gap %.2e)"
                     % (t, it, p[it], p.max(), gap))
        srt = np.sort(p)[::-1]
        if len(srt) > 1 and srt[0] - srt[1] <= 10 * tol:
            clean = False
        if pis is not None and t < len(pis):
            cand = np.ones(N, bool)
            cand[sel] = False
            d = np.abs(pis[t][cand] - pi[cand]).max()
            if not d <= tol:
                ctx.fail(tag + "score-mismatch", "step %d: score used by the selector differs from the oracle by %.3e (tol %.1e)"
                         % (t, d, tol))
    return judged, clean


def check(case, ctx):
    cls, direction, X, y = case["cls"], case["direction"], case["X"], case["y"]
    axis = 0 if direction == "sample" else 1
    prm = case["params"]
    ctx.cls("cls=%s/%s" % (cls, direction), "kind=" + case["kind"], "recompute_every=%d" % prm["recompute_every"], "k=%d" % prm["k"])
    warm = case.get("warm")
    N = X.shape[axis]

    def req(n):
        # the same count requested as a fraction of the items (or by default, where that resolves to it)
        if case.get("nform", "int") == "int":
            return n
        if n == N // 2 and n >= 1:
            return None
        return 1.0 if n == N else (n + 0.5) / N
    if case.get("nform", "int") != "int":
        ctx.cls("request=fraction")
    if warm:
        # fit the first part (possibly with another refresh interval), then change the parameters and continue
        ctx.cls("warm_chain", "first_recompute=%d" % warm["first_recompute"])
        p0 = dict(prm, recompute_every=warm["first_recompute"])
        sel = S.make(cls, direction, n_to_select=req(warm["first_n"]), **p0)
        with ctx.lib("fit-first-part"):
            sel.fit(X, y)
        sel.recompute_every = prm["recompute_every"]
        sel.n_to_select = req(case["nsel"])
        rec = S.Recorder(sel)
        with ctx.lib("fit-warm"):
            sel.fit(X, y, warm_start=True)
    else:
        sel = S.make(cls, direction, n_to_select=req(case["nsel"]), **prm)
        rec = S.Recorder(sel)
        with ctx.lib("fit"):
            sel.fit(X, y)
    idx = [int(i) for i in sel.selected_idx_]
    if len(set(idx)) != len(idx):
        ctx.fail("repeated-index", str(idx))
        return
    pis = [c[1] for c in rec.calls]
    if warm:
        # the step-wise oracle models a single cold search; for a chain only the final state is judged
        judged, clean = 0, False
        ctx.true("warm:count", len(idx) == case["nsel"], "%d selections for request %d" % (len(idx), case["nsel"]))
    else:
        judged, clean = walk(case, ctx, idx, pis)
    ctx.count("steps_judged", judged)
    ctx.count("steps_total", len(idx))
    if judged >= 2 or (warm and len(idx) >= 3):
        ctx.nontrivial = True
    sc = float(np.abs(X).max())
    if prm["recompute_every"] != 0:
        # conditioning of the selected set: a singular value between "clearly independent" and "exactly dependent"
        # makes the projection itself ill-defined in floating point
        A_sel = X[:, idx] if axis == 1 else X[idx].T
        sv = np.linalg.svd(A_sel, compute_uv=False)
        ratios = sv / sv[0] if sv[0] > 0 else np.ones_like(sv)
        grey = bool(np.any((ratios > 1e-14) & (ratios < 1e-6)))
    if prm["recompute_every"] != 0 and grey:
        ctx.skip("residual: selected items nearly dependent (singular ratio in (1e-14,1e-6))")
    elif prm["recompute_every"] != 0:
        rmin = float(ratios[ratios >= 1e-6].min())
        Xr = proj_out(X, idx, axis)
        ctx.close("residual==projection", sel.X_current_, Xr, sc * (1e-8 + 1e-14 / rmin), "X_current_ vs independent projection residual")
        part = sel.X_current_[:, idx] if axis == 1 else sel.X_current_[idx]
        ctx.close("residual-zero-on-selected", part, np.zeros_like(part), 1e-8 * sc, "residual on the selected items")
        # orthogonality to every selected item
        S_items = X[:, idx] if axis == 1 else X[idx].T          # columns = selected items in their ambient space
        inner = (S_items.T @ sel.X_current_) if axis == 1 else (sel.X_current_ @ S_items)
        ctx.close("residual-orthogonal", inner, np.zeros_like(inner), 1e-7 * sc * sc * max(X.shape), "<selected item, residual>")
    # dualities (tie-free, fully judged sequences only)
    if clean and judged == len(idx):
        if cls == "CUR":
            other = "feature" if direction == "sample" else "sample"
            dual = S.make("CUR", other, n_to_select=case["nsel"], **prm)
            with ctx.lib("dual-fit"):
                dual.fit(X.T.copy(), None)
            ctx.equal("duality", np.asarray(dual.selected_idx_), np.asarray(idx), "CUR(%s) on X^T vs CUR(%s) on X" % (other, direction))
            ctx.count("duality_checked")
        elif prm["mixing"] == 1.0 and prm["k"] < min(X.shape):       # (plain CUR needs k below both dimensions)
            p2 = {k: v for k, v in prm.items() if k != "mixing"}
            cur = S.make("CUR", direction, n_to_select=case["nsel"], **p2)
            with ctx.lib("cur-fit"):
                cur.fit(X, y)
            ctx.equal("pcovcur(mixing=1)==cur", np.asarray(cur.selected_idx_), np.asarray(idx), "PCov-CUR with mixing=1 vs CUR")
            ctx.count("mixing1_checked")
    rec.detach()


def summarize(case):
    X = case["X"]
    return {"cls": case["cls"], "direction": case["direction"], "kind": case["kind"], "shape": list(X.shape), "rank": case["rank"],
            "params": case["params"], "nsel": case["nsel"], "X_first_row": np.round(X[0], 4).tolist()}

"""C01 - every selector returns a consistent set of distinct, valid indices."""

import numpy as np
from hypothesis import strategies as st

from vf import gen, sel as S

ID = "C01"
TITLE = "Every selector returns a consistent set of distinct, valid indices"
TECHNIQUE = 'Hypothesis PBT over selector configurations and warm-start histories; invariant oracle over the public state with recorded scores'
LEVEL = 'Generated-input exploration of the state invariant after every successful fit (distinct in-range indices, counts, threshold semantics judged on the scores the selector actually saw, every derived view) across all selector classes, directions, request forms, initialisations, thresholds and warm-start chains. No absence claim: strength = the counted distinct non-trivial cases in the evidence.'
BUDGET = {"quick": 900, "thorough": 30000}
RULE = ("Cases: selector class in {FPS, CUR, PCovFPS, PCovCUR} x {feature, sample} and VoronoiFPS; X of "
        "kinds generic/lattice/eighths/lowrank/dup/clustered/scaled, 2..12 x 2..10 (thorough: to 40 x 24); "
        "y optional (required for PCov*); n_to_select None/int/float; initialisation int/'random'/list/ndarray; "
        "score thresholds absolute/relative, either placed between the scores of two consecutive steps of an "
        "unthresholded reference fit (so every stop position occurs) or log-uniform over 1e-6..10 x the first score; "
        "recompute_every 0..3, k 1..2, mixing {0,.5,.9}, full_fraction {1,.5,1e-6}; histories: cold fit followed by 0..2 "
        "warm-started fits with non-decreasing requests.  After every successful fit the invariant of the property is "
        "checked on the public state (scores seen by the selector are recorded by a harness-side wrapper of score()).  "
        "Non-trivial: >= 2 selections and at least one of {threshold stopped the search, request exceeds the numerical "
        "rank / number of distinct items, warm-started, initial list longer than 1, n_to_select None or float}; "
        "distinct = SHA-1 of the canonical case.")
ASSUMPTIONS = [
    "the property speaks about successful fits: a fit that raises is counted (class fit_raised:*) but is not a C01 violation",
    "a fractional or default request is satisfied by any count within one of N*f resp. N/2 (the text does not fix the rounding)",
    "relative thresholds are judged against the score of the first selection made by the search loop, as documented",
]


@st.composite
def strategy_(draw, tier):
    cls = draw(st.sampled_from(["FPS", "FPS", "CUR", "PCovFPS", "PCovCUR", "VoronoiFPS"]))
    direction = "sample" if cls == "VoronoiFPS" else draw(st.sampled_from(["feature", "sample"]))
    n, m = S.draw_shape(draw, tier)
    kind = draw(st.sampled_from(gen.MATRIX_KINDS))
    X = gen.matrix(draw, n, m, kind)
    N = S.n_items(X, direction)
    need_y = cls.startswith("PCov")
    y = S.draw_y(draw, n, X) if (need_y or draw(st.booleans())) else None
    params = {}
    n_init = 1
    if cls in ("FPS", "PCovFPS", "VoronoiFPS"):
        forms = ["int", "random"] + (["list", "array"] if cls == "FPS" else [])
        form = draw(st.sampled_from(forms))
        if form == "int":
            params["initialize"] = draw(st.integers(0, N - 1))
        elif form == "random":
            params["initialize"] = "random"
            params["random_state"] = draw(st.integers(0, 5))
        else:
            idx = draw(st.lists(st.integers(0, N - 1), min_size=1, max_size=N, unique=True))
            n_init = len(idx)
            params["initialize"] = idx if form == "list" else np.array(idx, dtype=int)
    if cls in ("CUR", "PCovCUR"):
        params["recompute_every"] = draw(st.sampled_from([1, 1, 0, 2, 3]))
        params["k"] = draw(st.integers(1, max(1, min(2, min(n, m) - 1))))
    if cls in ("PCovFPS", "PCovCUR"):
        params["mixing"] = draw(st.sampled_from([0.0, 0.5, 0.9]))
    if cls == "VoronoiFPS":
        params["full_fraction"] = draw(st.sampled_from([1.0, 0.5, 1e-6]))
    # requests: cold then warm with non-decreasing resolved counts
    req0 = S.draw_request(draw, N, minimum=n_init)
    requests = [req0]
    cur = S.resolve_request(req0, N)
    for _ in range(draw(st.sampled_from([0, 0, 1, 2]))):
        if cur >= N and not draw(st.booleans()):
            break
        r = S.draw_request(draw, N, minimum=cur, forms=("int", "int", "float"))
        requests.append(r)
        cur = S.resolve_request(r, N)
    thr = None
    if draw(st.integers(0, 9)) < 4:
        ttype = draw(st.sampled_from(["absolute", "relative"]))
        if draw(st.booleans()):
            thr = {"type": ttype, "mode": "between", "t": draw(st.integers(0, 10)),
                   "frac": draw(st.sampled_from([0.1, 0.5, 0.9]))}
        else:
            thr = {"type": ttype, "mode": "log", "u": draw(st.floats(-6, 1, width=32))}
    if kind == "narrowint":
        y = S.narrow(draw, X, y, params)
    return {"cls": cls, "direction": direction, "kind": kind, "X": X, "y": y, "params": params,
            "requests": requests, "thr": thr}


def strategy(tier):
    return strategy_(tier)


def ctor_params(case):
    p = dict(case["params"])
    return p


def loop_scores(sel, rec):
    """[(index chosen, its score)] for the selections made by the search loop, and the
    last score array if the final call did not select."""
    out = []
    idx = np.asarray(sel.selected_idx_)
    leftover = None
    for nsel, sc in rec.calls:
        if nsel < min(len(idx), sel.n_selected_):
            out.append((int(idx[nsel]), float(sc[idx[nsel]])))
        else:
            leftover = (nsel, sc)
    return out, leftover


def derive_threshold(case, ctx):
    """Absolute threshold value and the constructor arguments."""
    thr = case["thr"]
    X, y = case["X"], case["y"]
    ref = S.make(case["cls"], case["direction"], n_to_select=case["requests"][0], **ctor_params(case))
    rec = S.Recorder(ref)
    msgs, exc = S.fit_recorded(ref, X, y)
    if exc is not None:
        return None
    ls, _ = loop_scores(ref, rec)
    if not ls:
        first = 1.0
        seq = [1.0]
    else:
        seq = [s for _, s in ls]
        first = seq[0]
    if not np.isfinite(first) or first <= 0:
        return None
    if thr["mode"] == "between":
        t = min(thr["t"], len(seq) - 1)
        hi = seq[t]
        lo = seq[t + 1] if t + 1 < len(seq) else 0.0
        val = lo + thr["frac"] * (hi - lo)
    else:
        val = first * 10.0 ** thr["u"]
    if not np.isfinite(val):
        return None
    if thr["type"] == "relative":
        val = val / first
    return float(val)


def check(case, ctx):
    cls, direction, X, y = case["cls"], case["direction"], case["X"], case["y"]
    N = S.n_items(X, direction)
    axis = 0 if direction == "sample" else 1
    ctx.cls("cls=%s/%s" % (cls, direction), "kind=" + case["kind"], "chain=%d" % len(case["requests"]))
    kw = ctor_params(case)
    thr_val = None
    if case["thr"] is not None:
        thr_val = derive_threshold(case, ctx)
        if thr_val is None:
            ctx.skip("threshold not derivable (reference fit raised or first score not positive)")
            return
        kw["score_threshold"] = thr_val
        kw["score_threshold_type"] = case["thr"]["type"]
        ctx.cls("thr=" + case["thr"]["type"] + "/" + case["thr"]["mode"])
    sel = S.make(cls, direction, n_to_select=case["requests"][0], **kw)
    rec = S.Recorder(sel)
    first_score = None
    rank = gen.numerical_rank(X)
    ndistinct = len({tuple(r) for r in (X if axis == 0 else X.T).tolist()})
    interesting = False
    stopped = False
    for step, req in enumerate(case["requests"]):
        req = S.native(req)
        sel.n_to_select = req
        rec.reset()
        prior = int(getattr(sel, "n_selected_", 0)) if step > 0 else 0
        msgs, exc = S.fit_recorded(sel, X, y, warm=step > 0)
        if exc is not None:
            from vf.core import exc_site
            ctx.cls("fit_raised:%s@%s" % exc_site(exc))
            return
        warned = S.threshold_warned(msgs)
        R = S.resolve_request(req, N)
        idx = np.array(sel.selected_idx_, copy=True)
        nsel = sel.n_selected_
        p = rec.calls[0][0] - (prior if step > 0 else 0) if rec.calls else None   # pre-loop selections of this fit
        pre = rec.calls[0][0] if rec.calls else nsel
        where = "fit%d" % step

        # ---- K1 pattern (known finding): truncated report after a threshold stop ----------
        k1 = False
        Xs = sel.X_selected_
        if warned and pre >= 1 and len(idx) == nsel - pre and Xs.shape[axis] == nsel:
            pref = np.take(X, idx, axis=axis)
            if np.array_equal(np.take(Xs, np.arange(len(idx)), axis=axis), pref):
                k1 = True
                ctx.fail("K1:threshold_stop_truncation",
                         "%s: threshold stop after %d pre-loop selection(s): %d indices reported, n_selected_=%d"
                         % (where, pre, len(idx), nsel))
        if not k1:
            ctx.true("len==n_selected", len(idx) == nsel, "%s: len(selected_idx_)=%d, n_selected_=%d" % (where, len(idx), nsel))
        ctx.true("in-range", bool(np.all((idx >= 0) & (idx < N))), "%s: index out of range %s" % (where, idx))
        ctx.true("distinct", len(set(idx.tolist())) == len(idx), "%s: repeated index in %s" % (where, idx.tolist()))
        # ---- count --------------------------------------------------------------------------
        if warned:
            if case["thr"] is None:
                ctx.fail("threshold-warning-without-threshold", where)
            ctx.true("stopped-fewer", nsel < R, "%s: threshold warning but n_selected_=%d, request=%d" % (where, nsel, R))
        else:
            if isinstance(req, (int, np.integer)):
                ok = nsel == R
            elif req is None:
                ok = abs(nsel - N / 2) < 1
            else:
                ok = abs(nsel - N * req) < 1
            ctx.true("count", ok, "%s: n_selected_=%d but n_to_select=%r of %d" % (where, nsel, req, N))
        # ---- threshold semantics ----------------------------------------------------------
        if thr_val is not None and rec.calls:
            ls, leftover = loop_scores(sel, rec)
            if first_score is None and ls:
                first_score = ls[0][1]
            if first_score is None and leftover is not None:
                # stopped at the very first loop step: first score is the best score seen
                first_score = float(np.max(leftover[1]))
            relative_ok = case["thr"]["type"] == "absolute" or (first_score is not None and np.isfinite(first_score) and first_score > 0)
            if not relative_ok:
                ctx.skip("relative threshold: first score not positive")
                ls, leftover = [], None
            for (i, s) in ls:
                v = s if case["thr"]["type"] == "absolute" else s / first_score
                ctx.true("kept-score>=threshold", v >= thr_val,
                         "%s: kept selection %d has score %.6g < threshold %.6g" % (where, i, v, thr_val))
            if warned and leftover is not None:
                nn, sc = leftover
                mask = np.ones(N, bool)
                # the indices really selected so far are those stored in X_selected_ (K1 hides some)
                mask[idx] = False
                cand = sc[mask]
                if k1:
                    ctx.skip("stop-justified not judged under K1 (selected set partly unreported)")
                elif cand.size:
                    best = float(np.max(cand))
                    v = best if case["thr"]["type"] == "absolute" else best / first_score
                    ctx.true("stop-justified", v < thr_val or np.isnan(v),
                             "%s: stopped although best remaining score %.6g >= threshold %.6g" % (where, v, thr_val))
        # ---- derived views ----------------------------------------------------------------
        if not k1:
            ctx.true("X_selected-shape", Xs.shape[axis] == nsel and Xs.shape[1 - axis] == X.shape[1 - axis],
                     "%s: X_selected_ shape %s for %d selections" % (where, Xs.shape, nsel))
            if Xs.shape[axis] == len(idx):
                ctx.equal("X_selected==X[idx]", Xs, np.take(X, idx, axis=axis), where)
        if axis == 0 and y is not None:
            ys = getattr(sel, "y_selected_", None)
            if ys is None:
                ctx.fail("y_selected-missing", where)
            else:
                ctx.true("y_selected-shape", ys.shape[0] == len(idx), "%s: y_selected_ shape %s for %d indices"
                         % (where, ys.shape, len(idx)))
                if ys.shape[0] == len(idx) and len(idx) > 0:
                    ctx.equal("y_selected==y[idx]", ys.reshape(len(idx), -1), np.asarray(y, float)[idx].reshape(len(idx), -1), where)
        exp = np.zeros(N, bool)
        exp[idx[(idx >= 0) & (idx < N)]] = True
        with ctx.lib("derived views (%s)" % where):
            sup = np.asarray(sel.support_)
            gs0, gs1, gs2 = sel.get_support(), sel.get_support(indices=True), sel.get_support(indices=True, ordered=True)
        ctx.true("support-dtype", sup.dtype == bool and sup.shape == (N,), "%s: support_ %s %s" % (where, sup.dtype, sup.shape))
        ctx.equal("support==idx", sup, exp, where)
        ctx.equal("get_support()", gs0, exp, where)
        ctx.equal("get_support(indices)", np.asarray(gs1), np.sort(idx), where)
        ctx.equal("get_support(indices,ordered)", np.asarray(gs2), idx, where)
        if axis == 1:
            with ctx.lib("transform"):
                Xt = sel.transform(X)
            ctx.equal("transform==X[:,mask]", Xt, X[:, exp], where)
        # the views are read-only: after querying them the reported sequence is still the same
        ctx.equal("views-leave-sequence-intact", np.asarray(sel.selected_idx_), idx, where + ": selected_idx_ after the get_support / transform calls")
        ctx.equal("views-repeatable", np.asarray(sel.get_support(indices=True, ordered=True)), idx, where + ": ordered indices queried a second time")
        # ---- non-trivial classification -------------------------------------------------
        if warned:
            stopped = True
            ctx.cls("threshold_stopped")
        if nsel >= 2 and (warned or step > 0 or nsel > min(rank, ndistinct) or req is None or isinstance(req, float)
                          or isinstance(case["params"].get("initialize"), (list, np.ndarray)) and len(case["params"]["initialize"]) > 1):
            interesting = True
        if nsel > min(rank, ndistinct):
            ctx.cls("request>rank_or_distinct")
        if warned:
            break       # a warm start after a stop is outside the claim (and raises under K1)
        del p
    if interesting:
        ctx.nontrivial = True
    ctx.cls("stopped=%s" % stopped)
    rec.detach()


def known_filter(case, problems, active):
    hits = []
    rest = []
    for p in problems:
        if p["sub"].startswith("K1:") and "K1" in active:
            hits.append("K1")
        else:
            rest.append(p)
    return rest, sorted(set(hits))


def summarize(case):
    X = case["X"]
    return {"cls": case["cls"], "direction": case["direction"], "kind": case["kind"], "shape": list(X.shape),
            "y": case["y"] is not None, "params": {k: (v.tolist() if isinstance(v, np.ndarray) else v) for k, v in case["params"].items()},
            "requests": case["requests"], "thr": case["thr"], "X_first_row": np.round(X[0], 4).tolist()}

"""C06 - Voronoi FPS is an exact accelerator: it selects what plain FPS selects."""

import numpy as np
from hypothesis import strategies as st

import skmatter.sample_selection._voronoi_fps as VMOD
from skmatter.sample_selection import FPS, VoronoiFPS
from vf import gen, sel as S

ID = "C06"
TITLE = "Voronoi FPS is an exact accelerator: it selects what plain FPS selects"
TECHNIQUE = 'Hypothesis PBT with harness-owned clock (all 128 calibration outcomes enumerated), brute-force distance oracle checked after every step, differential vs plain FPS'
LEVEL = 'Generated-input exploration plus a complete enumeration of the timing-calibration outcomes on fixed data sets: the distance table is compared with the true minima after every selection step (wrapper), each selection is a farthest candidate, identical to FPS when tie-free. No absence claim: strength = the counted distinct non-trivial cases in the evidence.'
BUDGET = {"quick": 500, "thorough": 15000}
EXHAUSTIVE_PARTS = {
    "quick": ["2 fixed data sets with more than 1024 points (1100, 1500) through the pruned branch", "all 128 outcomes of the 7-step timing bisection (harness-owned clock) x 2 fixed clustered data sets"],
    "thorough": ["6 fixed data sets with 1100..3000 points", "all 128 outcomes of the 7-step timing bisection (harness-owned clock) x 12 fixed data sets "
                 "(clustered / uniform / duplicated / lattice, 12..80 points)"],
}
RULE = ("Cases: (a sixth of them wide: up to 14 points with more features than points) sample matrices of kinds clustered (pruning active), generic, dup, lattice, eighths with 3..40 points "
        "(thorough: to 150) in 2..5 dimensions; every initial index; n_to_select None/int/float; full_fraction in "
        "{None, 1, .7, .3, 1e-9}; n_trial_calculation 1..4.  For full_fraction=None the harness owns the clock: the "
        "module-global time() of _voronoi_fps is replaced by a deterministic sequence whose 7-bit word fixes each "
        "'voronoi < simple' comparison of the bisection (all 128 words are enumerated on fixed data sets, drawn otherwise).  "
        "Oracle: dense squared distances by explicit differences; every selection is a farthest candidate w.r.t. the "
        "actual prefix; identical to plain sample FPS unless a tie step occurred; after EVERY step (wrapper around "
        "_update_post_selection) the table hausdorff_ equals the true minimum distance on all not yet selected points.  "
        "Non-trivial: at least one step with pruning active (fewer active points than points) and at least one step through "
        "the sparse branch; distinct = SHA-1 of the canonical case.")
ASSUMPTIONS = [
    "tolerance 1e-9 x largest squared norm (dot-product distance formula)",
    "timing calibration is explored through its 128 comparison outcomes, not through real timing noise (which can only produce one of them)",
]


class FakeClock:
    """Deterministic replacement of time(): simple timing 1.0 per trial; bisection iteration i
    reports 0.5 (voronoi faster) if bit i of word is set, else 2.0."""

    def __init__(self, word, n_trial):
        self.word = word
        self.n_trial = max(1, int(n_trial))
        self.c = 0
        self.now = 0.0
        self.iterations = 0

    def __call__(self):
        c = self.c
        self.c += 1
        if c == 0:
            return self.now
        if c == 1:
            self.now += float(self.n_trial)
            return self.now
        q = (c - 2) // 2
        if (c - 2) % 2 == 0:
            return self.now
        i = q // self.n_trial
        self.iterations = max(self.iterations, i + 1)
        dur = 0.5 if (self.word >> (i % 7)) & 1 else 2.0
        self.now += dur
        return self.now


@st.composite
def strategy_(draw, tier):
    big = tier == "thorough"
    n = draw(st.integers(3, 150 if big else 40))
    m = draw(st.integers(2, 5))
    if draw(st.integers(0, 5)) == 0:
        # wide data (more features than samples): a different regime for any Gram-matrix based short cut
        n = min(n, 14)
        m = n + draw(st.integers(1, 8))
    kind = draw(st.sampled_from(["clustered", "clustered", "generic", "dup", "lattice", "eighths", "tiny", "huge"]))
    X = gen.matrix(draw, n, m, kind)
    init = draw(st.one_of(st.integers(0, n - 1), st.just("random")))
    req = S.draw_request(draw, n, minimum=1, forms=("int", "int", "none", "float"))
    ff = draw(st.sampled_from([None, 1.0, 0.7, 0.3, 1e-9]))
    case = {"kind": kind, "X": X, "initialize": init, "request": req, "full_fraction": ff,
            "n_trial": draw(st.integers(1, 4)), "word": draw(st.integers(0, 127)) if ff is None else 0,
            "random_state": draw(st.integers(0, 3)) if init == "random" else 0}
    return case


def strategy(tier):
    return strategy_(tier)


def fixed_dataset(j):
    rng = np.random.default_rng(1000 + j)
    fam = j % 4
    n = [30, 12, 48, 80, 20, 64][j % 6]
    m = 2 + j % 3
    if fam == 0:
        k = 3 + j % 3
        c = rng.normal(size=(k, m)) * 10
        return c[rng.integers(0, k, n)] + 0.05 * rng.normal(size=(n, m)), "clustered"
    if fam == 1:
        return rng.uniform(-1, 1, size=(n, m)), "generic"
    if fam == 2:
        b = rng.normal(size=(max(2, n // 3), m))
        return b[rng.integers(0, len(b), n)], "dup"
    return rng.integers(-3, 4, size=(n, m)).astype(float), "lattice"


def large_cases(tier):
    """More than 1024 points (any block-wise or chunked evaluation must cover the last partial block)."""
    sizes = [(1100, 1.0), (1500, 0.7)] if tier == "quick" else [(1100, 1.0), (1500, 0.7), (2600, 0.9), (3000, 1.0), (2100, None), (1300, 0.3)]
    for j, (n, ff) in enumerate(sizes):
        rng = np.random.default_rng(2000 + j)
        X = rng.uniform(-1, 1, size=(n, 2)) if j % 2 == 0 else rng.normal(size=(n, 3))
        yield {"kind": "large", "X": X, "initialize": j, "request": 10 + j, "full_fraction": ff, "n_trial": 1, "word": 127, "random_state": 0}


def exhaustive(tier):
    for c in large_cases(tier):
        yield c
    nd = 2 if tier == "quick" else 12
    for j in range(nd):
        X, kind = fixed_dataset(j if tier == "thorough" else 4 * j)
        n = len(X)
        for word in range(128):
            yield {"kind": kind, "X": X, "initialize": (word * 7 + j) % n,
                   "request": [None, n, 0.75, max(1, n // 3)][word % 4],
                   "full_fraction": None, "n_trial": 1 + word % 3, "word": word, "random_state": 0}


def big_D(X):
    """Explicit-difference squared distances without the (n, n, m) temporary."""
    D = np.zeros((len(X), len(X)))
    for c in range(X.shape[1]):
        d = X[:, c][:, None] - X[:, c][None, :]
        D += d * d
    return D


def check(case, ctx):
    X = case["X"]
    n = len(X)
    D = S.fps_D(X, "sample") if n <= 400 else big_D(X)
    scale = float((X ** 2).sum(1).max())
    tol = 1e-9 * scale + 1e-300
    ff = case["full_fraction"]
    ctx.cls("kind=" + case["kind"], "full_fraction=%s" % ff,
            "request=%s" % ("none" if case["request"] is None else type(case["request"]).__name__))
    kw = dict(n_to_select=S.native(case["request"]), initialize=case["initialize"], full_fraction=ff,
              n_trial_calculation=case["n_trial"], random_state=case["random_state"])
    v = VoronoiFPS(**kw)
    log = []        # (n_selected after step, max table error on unselected, n_active or None, sparse?)
    active_log = []
    orig_upd = v._update_post_selection
    orig_act = v._get_active

    def get_active(Xa, last):
        a = orig_act(Xa, last)
        active_log.append(len(a))
        return a

    def update(Xa, ya, last):
        nb = len(active_log)
        orig_upd(Xa, ya, last)
        sel = np.asarray(v.selected_idx_[: v.n_selected_])
        true = D[:, sel].min(1)
        uns = np.ones(n, bool)
        uns[sel] = False
        err = float(np.abs(v.hausdorff_[uns] - true[uns]).max()) if uns.any() else 0.0
        na = active_log[-1] if len(active_log) > nb else None
        log.append((int(v.n_selected_), err, na))

    v._get_active = get_active
    v._update_post_selection = update
    clock = None
    saved = VMOD.time
    if ff is None:
        clock = FakeClock(case["word"], case["n_trial"])
        VMOD.time = clock
    from vf import lifecycle
    try:
        with ctx.lib("fit"):
            if clock is not None:
                # the injected clock is module-level state owned by this call: no decoy fits while it is installed
                with lifecycle.suspended():
                    v.fit(X)
            else:
                v.fit(X)
    finally:
        VMOD.time = saved
    if clock is not None:
        ctx.cls("calibration_word_popcount=%d" % bin(case["word"] & 127).count("1"))
        ctx.true("calibration-ran", clock.iterations == 7, "bisection ran %d iterations" % clock.iterations)
    eff_ff = v.full_fraction if ff is None else ff
    idx = np.asarray(v.selected_idx_)
    N = n
    if not (len(set(idx.tolist())) == len(idx) and np.all(idx >= 0) and np.all(idx < N)):
        ctx.fail("invalid-indices", str(idx.tolist()))
        return
    req = S.native(case["request"])
    R = S.resolve_request(req, n)
    ok_count = (len(idx) == R) if isinstance(req, (int, np.integer)) else (abs(len(idx) - (n / 2 if req is None else n * req)) < 1)
    ctx.true("count", ok_count, "%d selections for request %r of %d" % (len(idx), req, n))
    if case["initialize"] != "random":
        ctx.true("initial-index", int(idx[0]) == int(case["initialize"]), "first %d" % idx[0])
    from vf.props.c02 import judge_sequence
    mins, tie_free = judge_sequence(ctx, D, idx, 1, tol)
    ctx.cls("tie_free=%s" % tie_free)
    # table after every step
    pruned = sparse = 0
    for (k, err, na) in log:
        if err > tol:
            ctx.fail("table-after-step", "after %d selections the distance table is off by %.3e on an unselected point "
                     "(active points: %s of %d)" % (k, err, na, n))
            break
        if na is not None and k > 1:
            if na < n:
                pruned += 1
            if 0 < na and na / n <= eff_ff:
                sparse += 1
    ctx.true("steps-logged", len(log) == len(idx), "%d table snapshots for %d selections" % (len(log), len(idx)))
    ctx.count("steps", len(log))
    ctx.count("steps_pruned", pruned)
    ctx.count("steps_sparse_branch", sparse)
    # reported distances
    with ctx.lib("distances"):
        sd = np.asarray(v.get_select_distance(), float)
        hd = np.asarray(v.get_distance(), float)
    if len(idx) > 1 and sd.shape == (len(idx),):
        ctx.close("select-distance==true-min", sd[1:], mins[1:], tol, "reported distance at selection")
    uns = np.ones(n, bool)
    uns[idx] = False
    if uns.any():
        ctx.close("table==true-min", hd[uns], D[:, idx].min(1)[uns], tol, "final distance table")
    # identical to plain FPS when tie-free
    f = FPS(n_to_select=req, initialize=case["initialize"], random_state=case["random_state"])
    with ctx.lib("plain-fps"):
        f.fit(X)
    same = np.array_equal(np.asarray(f.selected_idx_), idx)
    if tie_free:
        ctx.true("identical-to-FPS", same, "VoronoiFPS %s vs FPS %s" % (idx.tolist()[:12], np.asarray(f.selected_idx_).tolist()[:12]))
    ctx.cls("identical_to_FPS=%s" % same)
    if pruned >= 1 and sparse >= 1:
        ctx.nontrivial = True


def summarize(case):
    X = case["X"]
    return {"kind": case["kind"], "shape": list(X.shape), "initialize": case["initialize"], "request": case["request"],
            "full_fraction": case["full_fraction"], "n_trial": case["n_trial"], "clock_word": case["word"],
            "X_first_row": np.round(X[0], 4).tolist()}

"""C12 - kernel centring and normalisation equal centring and scaling in feature space."""

import numpy as np
from hypothesis import strategies as st
from hypothesis.extra import numpy as hnp

from skmatter.preprocessing import KernelNormalizer as KN
from skmatter.preprocessing import SparseKernelCenterer as SKC
from vf import gen
from vf.core import vary_layout

ID = "C12"
TITLE = "Kernel centring and normalisation equal centring and scaling in feature space"
TECHNIQUE = ("Hypothesis PBT with an explicit feature map as reference model: kernels are Gram matrices of drawn features, the "
             "expected result is computed directly in feature space")
LEVEL = ("Generated-input exploration: explicit random features give K = Phi Phi^T; the transformed train-train, test-train and "
         "sparse (active-set) kernels are compared with Gram matrices of features centred by the weighted training mean and divided "
         "by the common scale, for all with_center / with_trace combinations and weight kinds; trace, weighted column means and "
         "Nystrom trace are checked directly. No absence claim: strength = the counted distinct non-trivial cases in the evidence.")
BUDGET = {"quick": 1500, "thorough": 25000}
RULE = ("Cases: n in 2..12 (thorough 40) training samples with 1..8 explicit features of global magnitude {1e-7,1e-3,1,1e3} plus a drawn offset, 1..9 test samples, "
        "weights None / uniform / real positive / integer multiplicities (each optionally with exactly-zero entries, at least one positive), all with_center / with_trace combinations, active sets of "
        "1..n training samples (or arbitrary feature vectors) for the sparse variant.  Non-trivial: n >= 3 and centring or trace scaling "
        "switched on; distinct = SHA-1 of the canonical case.")
ASSUMPTIONS = [
    "tolerance 1e-8 x max(1, |K|/scale); cases whose centred kernel has trace/n < 1e-10 are skipped",
    "sparse variant: cases with Nystrom scale below 1e-6 are skipped; pinv cut-off 1e-12 as in the code's default",
]


@st.composite
def strategy_(draw, tier):
    n = draw(st.integers(2, 40 if tier == "thorough" else 12))
    d = draw(st.integers(1, 8))
    nt = draw(st.integers(1, 9))
    off = gen.normal(draw, (d,)) * draw(st.sampled_from([0.0, 1.0, 5.0, 1e3, 2e4]))
    gs = draw(st.sampled_from([1.0, 1.0, 1e-3, 1e-7, 1e3]))        # kernels of any magnitude
    off = off * gs
    P = gen.normal(draw, (n, d)) * gs + off
    Pt = gen.normal(draw, (nt, d)) * gs + off
    wk = draw(st.sampled_from(["none", "uniform", "real", "int"]))
    if wk == "none":
        w = None
    elif wk == "uniform":
        w = np.full(n, 3.0)
    elif wk == "real":
        w = draw(hnp.arrays(np.float64, (n,), elements=st.floats(0.125, 2, width=32)))
    else:
        w = draw(hnp.arrays(np.int64, (n,), elements=st.integers(1, 3))).astype(float)
    if w is not None and wk in ("real", "int") and draw(st.booleans()):
        # non-negative weights: some samples carry exactly zero weight (at least one stays positive)
        z = draw(hnp.arrays(np.bool_, (n,)))
        if not z.all():
            w = np.where(z, 0.0, w)
            wk = wk + "+zeros" if z.any() else wk
    ma = draw(st.integers(1, n))
    if draw(st.booleans()):
        act = draw(st.lists(st.integers(0, n - 1), min_size=ma, max_size=ma, unique=True))
        Pm = P[act]
    else:
        Pm = gen.normal(draw, (ma, d)) * gs + off
    return {"P": P, "Pt": Pt, "Pm": Pm, "w": w, "wkind": wk, "with_center": draw(st.booleans()), "with_trace": draw(st.booleans())}


def strategy(tier):
    return strategy_(tier)


def check(case, ctx):
    P, Pt, Pm, w = case["P"], case["Pt"], case["Pm"], case["w"]
    wc, wt = case["with_center"], case["with_trace"]
    n, d = P.shape
    ctx.cls("weights=" + case["wkind"], "with_center=%s" % wc, "with_trace=%s" % wt)
    # kernels arrive in whatever memory layout the caller's slicing / transposing produced (values identical)
    K, Kt = vary_layout(P @ P.T, 1), vary_layout(Pt @ P.T, 2)
    ww = np.ones(n) / n if w is None else w / w.sum()
    mu = (ww[:, None] * P).sum(0) if wc else np.zeros(d)
    Pc, Ptc = P - mu, Pt - mu
    scale = np.trace(Pc @ Pc.T) / n if wt else 1.0
    kmag = max(float(np.abs(K).max()), 1e-300)
    if scale < 1e-10 * kmag:
        ctx.skip("centred kernel has (almost) zero trace")
        return
    # cancellation in the centred kernel costs eps x |K| / scale: tolerance 1e-10 x that ratio (at least 1e-8)
    tol = max(1e-8, 1e-10 * kmag / scale) if wt else max(1e-8 * kmag, 1e-10 * kmag)
    K0, Kt0 = K.copy(), Kt.copy()
    with ctx.lib("KernelNormalizer"):
        kn = KN(with_center=wc, with_trace=wt).fit(K, sample_weight=w)
        A = kn.transform(K)
        At = kn.transform(Kt)
        Aft = KN(with_center=wc, with_trace=wt).fit_transform(K, sample_weight=w)
    ctx.close("train-kernel", A, Pc @ Pc.T / scale, tol, "transformed train-train kernel vs feature-space Gram matrix")
    ctx.close("test-kernel", At, Ptc @ Pc.T / scale, tol, "transformed test-train kernel vs feature-space Gram matrix")
    if wt:
        ctx.close("trace==n", np.trace(A), float(n), 1e-8 * n, "trace of the transformed training kernel")
    else:
        # trace scaling switched off: only the centring acts
        ctx.close("no-trace-scaling", A, Pc @ Pc.T, tol, "with_trace=False must not rescale")
    if not wc and not wt:
        ctx.close("identity", A, K, 1e-12 * kmag, "both switched off: kernel unchanged")
    ctx.close("fit_transform", Aft, A, 1e-12 * max(1.0, np.abs(A).max()), "fit_transform vs fit+transform")
    ctx.close("input-untouched", K, K0, 0.0, "training kernel modified in place")
    ctx.close("input-untouched-test", Kt, Kt0, 0.0, "test kernel modified in place")
    # ---- sparse variant ------------------------------------------------------------------------------------
    Knm, Kmm, Ktm = vary_layout(P @ Pm.T, 3), vary_layout(Pm @ Pm.T, 4), vary_layout(Pt @ Pm.T, 5)
    Knm_c = Pc @ Pm.T if wc else Knm
    mu_cols = (ww[:, None] * Knm).sum(0) if wc else np.zeros(Knm.shape[1])
    Kh = (Knm - mu_cols) @ np.linalg.pinv(Kmm, 1e-12) @ (Knm - mu_cols).T
    sc2 = np.sqrt(np.trace(Kh) / n) if wt else 1.0
    # a singular value of Kmm near the pinv cut-off makes the Nystrom scale ill-defined
    sv = np.linalg.svd(Kmm, compute_uv=False)
    grey = bool(np.any((sv > 1e-14 * sv[0]) & (sv < 1e-9 * sv[0]))) if sv[0] > 0 else True
    nmag = max(float(np.abs(Knm).max()), 1e-300)
    if not np.isfinite(sc2) or (wt and sc2 < 1e-6) or grey:
        ctx.skip("sparse: Nystrom scale ill-defined")
    else:
        with ctx.lib("SparseKernelCenterer"):
            sk = SKC(with_center=wc, with_trace=wt).fit(Knm, Kmm, sample_weight=w)
            Z = sk.transform(Knm)
            Zt = sk.transform(Ktm)
            Zft = SKC(with_center=wc, with_trace=wt).fit_transform(Knm, Kmm, sample_weight=w)
        t2 = 1e-7 * max(1.0, nmag / sc2) if wt else 1e-7 * nmag
        ctx.close("sparse:train-block", Z, (Knm - mu_cols) / sc2, t2, "transformed K_nm vs (K_nm - weighted column means)/scale")
        ctx.close("sparse:test-block", Zt, (Ktm - mu_cols) / sc2, t2, "transformed test block")
        if wc:
            ctx.close("sparse:column-means-vanish", (ww[:, None] * Z).sum(0), np.zeros(Z.shape[1]),
                      # the means cancel to eps x the magnitude of the uncentred block
                      max(1e-8 * max(np.abs(Z).max(), 1e-300), 1e-13 * nmag) if not wt else max(1e-8 * max(1.0, np.abs(Z).max()), 1e-13 * nmag / sc2),
                      "weighted column means of the transformed training block")
            # equals the feature-space expression
            ctx.close("sparse:feature-space", Z, Knm_c / sc2, t2, "vs Gram matrix of centred features with the active set")
        if wt:
            ctx.close("sparse:nystrom-trace==n", np.trace(Z @ np.linalg.pinv(Kmm, 1e-12) @ Z.T), float(n), 1e-6 * n,
                      "trace of the centred Nystrom kernel")
        ctx.close("sparse:fit_transform", Zft, Z, 1e-12 * max(1.0, np.abs(Z).max()), "fit_transform vs fit+transform")
        ctx.count("sparse_checked")
    if n >= 3 and (wc or wt):
        ctx.nontrivial = True


def summarize(case):
    return {"n": int(case["P"].shape[0]), "features": int(case["P"].shape[1]), "n_test": int(case["Pt"].shape[0]),
            "n_active": int(case["Pm"].shape[0]), "weights": case["wkind"], "with_center": case["with_center"],
            "with_trace": case["with_trace"], "P_first_row": np.round(case["P"][0], 4).tolist()}

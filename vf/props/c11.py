"""C11 - StandardFlexibleScaler standardises w.r.t. the weighted training distribution."""

import numpy as np
from hypothesis import strategies as st
from hypothesis.extra import numpy as hnp
from sklearn.preprocessing import StandardScaler

from skmatter.preprocessing import StandardFlexibleScaler as SFS
from vf import gen

ID = "C11"
TITLE = "StandardFlexibleScaler standardises w.r.t. the weighted training distribution"
TECHNIQUE = ("Hypothesis PBT against explicit weighted sums, differential vs sklearn StandardScaler and vs row replication, "
             "metamorphic shift/scale relations, constructed below/above-tolerance variances")
LEVEL = ("Generated-input exploration: weighted mean / variance of the transformed training data recomputed by explicit sums, "
         "round trip on training and new data, integer weights vs np.repeat, sklearn equivalence, shift and (signed) scale "
         "invariance, and rejection exactly when the (weighted) variance is constructed below the configured tolerance. "
         "No absence claim: strength = the counted distinct non-trivial cases in the evidence.")
BUDGET = {"quick": 1500, "thorough": 25000}
RULE = ("Cases: n in 2..14 (thorough 40), 1..8 columns, column scales e^[-4,4], offsets up to 1e3, all with_mean/with_std/column_wise "
        "combinations, weights None / integer multiplicities 0..3 / real with zeros (>= 2 positive), atol in {1e-12,1e-6,1e-2}, rtol in "
        "{0,1e-3}, new data for transform; a second data set is constructed from the first so that the (weighted) variance is a factor "
        "1/4 below or 4 above the configured threshold.  Non-trivial: n >= 3 and (weights given or >= 2 columns); distinct = SHA-1 of "
        "the canonical case.")
ASSUMPTIONS = [
    "tolerances: means 1e-9 x max|Z|, variances 1e-8, round trip 1e-9 x max|X| (offsets up to 1e3 against scales down to e^-4)",
    "the rejection threshold is probed a factor 4 away on either side (the exact boundary is rounding dependent)",
]


@st.composite
def strategy_(draw, tier):
    n = draw(st.integers(2, 40 if tier == "thorough" else 14))
    m = draw(st.integers(1, 8))
    base = gen.normal(draw, (n, m))
    logs = draw(hnp.arrays(np.float64, (m,), elements=st.floats(-4, 4, width=32)))
    offs = draw(hnp.arrays(np.float64, (m,), elements=st.floats(-1, 1, width=32))) * 10.0 ** draw(st.floats(-2, 3, width=32))
    X = base * np.exp(logs) + offs
    wk = draw(st.sampled_from(["none", "int", "real"]))
    if wk == "none":
        w = None
    elif wk == "int":
        w = draw(hnp.arrays(np.int64, (n,), elements=st.integers(0, 3))).astype(float)
    else:
        w = draw(hnp.arrays(np.float64, (n,), elements=st.floats(0.015625, 2, width=32)))
        w = w * draw(hnp.arrays(np.int64, (n,), elements=st.integers(0, 4)).map(lambda a: (a > 0).astype(float)))
    if w is not None and (w > 0).sum() < 2:
        w = w.copy()
        w[:2] = 1.0
    q = draw(st.integers(1, 5))
    return {"X": X, "w": w, "wkind": wk, "with_mean": draw(st.booleans()), "with_std": draw(st.booleans()),
            "column_wise": draw(st.booleans()), "atol": draw(st.sampled_from([1e-12, 1e-12, 1e-6, 1e-2])),
            "rtol": draw(st.sampled_from([0.0, 0.0, 1e-3])), "Xnew": gen.normal(draw, (q, m)) * np.exp(logs) + offs,
            "shift": gen.normal(draw, (m,)) * 5, "c": draw(st.sampled_from([-3.0, 0.5, 7.0])),
            "factor": draw(st.sampled_from([0.25, 4.0]))}


def strategy(tier):
    return strategy_(tier)


def wstats(Z, ww):
    mu = (ww[:, None] * Z).sum(0)
    var = (ww[:, None] * (Z - mu) ** 2).sum(0)
    return mu, var


def check(case, ctx):
    X, w = case["X"], case["w"]
    n, m = X.shape
    wm, ws, cw = case["with_mean"], case["with_std"], case["column_wise"]
    ctx.cls("weights=" + case["wkind"], "with_mean=%s" % wm, "with_std=%s" % ws, "column_wise=%s" % cw)
    ww = np.ones(n) / n if w is None else w / w.sum()
    mu0, var0 = wstats(X, ww)
    kw = dict(with_mean=wm, with_std=ws, column_wise=cw)
    # the default tolerance may legitimately reject (only when the variance really is tiny)
    thr_default = 1e-12
    tiny = (var0.min() < 4 * thr_default) if cw else (var0.sum() < 4 * thr_default)
    if ws and tiny:
        ctx.skip("variance within a factor 4 of the default tolerance")
        return
    with ctx.lib("fit"):
        s = SFS(**kw).fit(X, sample_weight=w)
        Z = s.transform(X)
        Zn = s.transform(case["Xnew"])
        back = s.inverse_transform(Z)
        backn = s.inverse_transform(Zn)
        ft = SFS(**kw).fit_transform(X, sample_weight=w)
    mu, var = wstats(Z, ww)
    sc = max(1.0, float(np.abs(Z).max()))
    if wm:
        ctx.close("weighted-mean-zero", mu, np.zeros(m), 1e-9 * sc, "weighted column means of the transformed training data")
    if ws:
        if cw:
            ctx.close("variance-one-per-column", var, np.ones(m), 1e-8, "weighted variance per column")
        else:
            ctx.close("variance-one-in-total", var.sum(), 1.0, 1e-8, "weighted variance summed over columns")
    else:
        ctx.close("no-scaling", Z, X - (mu0 if wm else 0.0), 1e-12 * max(1.0, np.abs(X).max()), "with_std=False must not rescale")
    if not wm:
        # centring switched off: zero maps to zero
        ctx.close("no-centering", s.transform(np.zeros((1, m))), np.zeros((1, m)), 0.0, "with_mean=False must not shift")
    xs = max(1.0, float(np.abs(X).max()))
    ctx.close("roundtrip-train", back, X, 1e-9 * xs, "inverse_transform(transform(X))")
    ctx.close("roundtrip-new", backn, case["Xnew"], 1e-9 * max(xs, np.abs(case["Xnew"]).max()), "inverse_transform(transform(Xnew))")
    ctx.close("fit_transform", ft, Z, 1e-12 * sc, "fit_transform vs fit+transform")
    # integer weights == repeated rows
    if case["wkind"] == "int":
        Xr = np.repeat(X, w.astype(int), axis=0)
        with ctx.lib("fit-repeated"):
            s2 = SFS(**kw).fit(Xr)
        ctx.close("weights==repetition:mean", s2.mean_, s.mean_, 1e-9 * xs, "mean_ with integer weights vs repeated rows")
        ctx.close("weights==repetition:scale", np.atleast_1d(s2.scale_), np.atleast_1d(s.scale_),
                  1e-8 * float(np.max(np.abs(np.atleast_1d(s.scale_)))), "scale_ with integer weights vs repeated rows")
    if w is None and cw and wm and ws:
        ctx.close("sklearn-StandardScaler", Z, StandardScaler().fit(X).transform(X), 1e-8 * sc, "unweighted column-wise mode vs sklearn")
    # metamorphic
    if wm:
        with ctx.lib("fit-shifted"):
            Z2 = SFS(**kw).fit(X + case["shift"], sample_weight=w).transform(X + case["shift"])
        ctx.close("shift-invariance", Z2, Z, 1e-7 * sc, "transformed data after shifting the input")
    if ws:
        c = case["c"]
        with ctx.lib("fit-scaled"):
            Z3 = SFS(**kw).fit(c * X, sample_weight=w).transform(c * X)
        ctx.close("scale-invariance", Z3, np.sign(c) * Z, 1e-7 * sc, "transformed data after uniform rescaling by %g" % c)
    # rejection below / acceptance above the configured tolerance
    if ws:
        atol, rtol, f = case["atol"], case["rtol"], case["factor"]
        Xa = X.copy()
        if cw:
            thr = atol + abs(mu0[0]) * rtol
            if var0[0] > 0 and thr > 0:
                Xa[:, 0] = mu0[0] + (X[:, 0] - mu0[0]) * np.sqrt(f * thr / var0[0])
                for j in range(1, m):       # all other columns clearly above their threshold
                    tj = atol + abs(mu0[j]) * rtol
                    if var0[j] < 16 * tj:
                        Xa[:, j] = mu0[j] + (X[:, j] - mu0[j]) * np.sqrt(16 * tj / var0[j])
        else:
            thr = atol + abs(np.average(mu0)) * rtol
            Xa = mu0 + (X - mu0) * np.sqrt(f * thr / var0.sum())
        est = SFS(atol=atol, rtol=rtol, **kw)
        if f < 1:
            with ctx.rejects("variance-below-tolerance", ValueError):
                est.fit(Xa, sample_weight=w)
            ctx.count("rejections_checked")
        else:
            with ctx.lib("variance-above-tolerance"):
                est.fit(Xa, sample_weight=w)
            ctx.count("acceptances_checked")
    if n >= 3 and (w is not None or m >= 2):
        ctx.nontrivial = True


def summarize(case):
    return {"shape": list(case["X"].shape), "weights": case["wkind"], "w": None if case["w"] is None else np.round(case["w"], 3).tolist(),
            "with_mean": case["with_mean"], "with_std": case["with_std"], "column_wise": case["column_wise"], "atol": case["atol"],
            "rtol": case["rtol"], "factor": case["factor"], "X_first_row": np.round(case["X"][0], 4).tolist()}

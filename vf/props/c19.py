"""C19 - DirectionalConvexHull selects exactly the lower-hull vertices, signed distances."""

import numpy as np
from hypothesis import strategies as st
from scipy.optimize import linprog

from skmatter.sample_selection import DirectionalConvexHull as DCH
from vf import gen

ID = "C19"
TITLE = "DirectionalConvexHull selects exactly the lower-hull vertices, signed distances"
TECHNIQUE = ("Hypothesis PBT against a linear-programming oracle (scipy HiGHS, independent of Qhull) for the lower hull, plus metamorphic "
             "relations (points added above the hull, positive affine maps of the target)")
LEVEL = ("Generated-input exploration: for every training sample an LP over the other samples decides whether it is a lower-hull vertex "
         "(margin-aware), training distances are compared with the vertical offset y - h(x) from a second LP, selected samples have zero "
         "distance and zero high-dimensional residual, queries inside the footprint are signed correctly, and the selection is invariant "
         "under added points above the hull and positive affine maps of y; every row is scored independently of the batch it is in "
         "(also for fixed data sets of 2049..6000 samples). No absence claim: strength = counted distinct non-trivial cases.")
BUDGET = {"quick": 300, "thorough": 8000}
WATCHDOG = {"quick": 60, "thorough": 240}
RULE = ("Cases: 1..3 hull dimensions, 0..3 additional high-dimensional columns, any choice and order of low_dim_idx, n in ld+3..20 "
        "(thorough 60) generic samples (a third of the cases with 1..3 samples placed at exactly the low-dimensional position of another one), convex (noisy paraboloid) or non-convex targets, 5 query points inside the footprint (convex "
        "combinations) at drawn vertical offsets, 1..5 added samples strictly above the hull, y -> a y + b with a in (0.1,10).  "
        "Non-trivial: at least one selected and one unselected training sample were decided by the LP (margin > 1e-7 x range(y)); "
        "distinct = SHA-1 of the canonical case.")
ASSUMPTIONS = [
    "vertex decisions with LP margin below 1e-7 x range(y) are ambiguous and skipped (general position is part of the property)",
    "distances are compared with tolerance 1e-7 x range(y); trusted base: scipy.optimize.linprog (HiGHS)",
]


def hull_height(P, yv, x, exclude=None):
    idx = [j for j in range(len(P)) if j != exclude]
    A = np.vstack([P[idx].T, np.ones(len(idx))])
    b = np.r_[x, 1.0]
    r = linprog(yv[idx], A_eq=A, b_eq=b, bounds=(0, None), method="highs")
    return float(r.fun) if r.status == 0 else None


@st.composite
def strategy_(draw, tier):
    ld = draw(st.integers(1, 3))
    hd = draw(st.integers(0, 3))
    n = draw(st.integers(ld + 3, 60 if tier == "thorough" else 20))
    F = ld + hd
    cols = draw(st.permutations(list(range(F))))
    low = [int(c) for c in cols[:ld]]
    X = gen.normal(draw, (n, F))
    convex = draw(st.booleans())
    rng = gen.rng_of(draw)
    shared = 0
    if draw(st.integers(0, 2)) == 0:
        # several samples at exactly the same low-dimensional position (anywhere, in any order), with different targets
        for _ in range(draw(st.integers(1, 3))):
            i, j = rng.integers(0, n, size=2)
            # (the footprint keeps at least ld + 2 distinct positions)
            if i != j and len(np.unique(X[:, low], axis=0)) - 1 >= ld + 2:
                X[i, low] = X[j, low]
                shared += 1
    y = (X[:, low] ** 2).sum(1) * rng.uniform(0.2, 2) + rng.normal(size=n) * (0.05 if convex else 1.0)
    k = draw(st.integers(1, 5))
    return {"X": X, "y": y, "low": low, "convex": convex, "shared": shared, "qlam": rng.dirichlet(np.ones(n), size=5), "qoff": rng.normal(size=5) * 0.3,
            "alam": rng.dirichlet(np.ones(n), size=k), "aoff": rng.uniform(0.01, 2, size=k), "ahigh": rng.normal(size=(k, F)),
            "a": float(rng.uniform(0.1, 10)), "b": float(rng.normal() * 5)}


def strategy(tier):
    return strategy_(tier)


def exhaustive(tier):
    """More than 2048 samples (any block-wise evaluation must cover the last partial block)."""
    sizes = [(2500, 1, 2), (4500, 2, 1)] if tier == "quick" else [(2500, 1, 2), (4500, 2, 1), (2049, 1, 0), (6000, 3, 3)]
    for j, (n, ld, hd) in enumerate(sizes):
        rng = np.random.default_rng(3000 + j)
        F = ld + hd
        X = rng.normal(size=(n, F))
        low = list(range(ld))
        y = (X[:, low] ** 2).sum(1) + rng.normal(size=n) * 0.5
        yield {"X": X, "y": y, "low": low, "convex": False, "qlam": np.zeros((0, n)), "qoff": np.zeros(0), "alam": np.zeros((0, n)),
               "aoff": np.zeros(0), "ahigh": np.zeros((0, F)), "a": 2.0, "b": 1.0, "large": True}


EXHAUSTIVE_PARTS = {"quick": ["2 fixed data sets with 2500 and 4500 samples (row-independence and sign relations only)"],
                    "thorough": ["4 fixed data sets with 2049..6000 samples"]}


def check(case, ctx):
    X, y, low = case["X"], case["y"], case["low"]
    n, F = X.shape
    ld = len(low)
    hd = F - ld
    ctx.cls("ld=%d" % ld, "hd=%d" % hd, "convex=%s" % case["convex"], "shared_positions=%s" % bool(case.get("shared")))
    with ctx.lib("fit"):
        d = DCH(low_dim_idx=list(low)).fit(X, y)
        sc = np.asarray(d.score_samples(X, y))
    P = X[:, low]
    sel = set(int(i) for i in d.selected_idx_)
    ysc = float(np.ptp(y))
    if ysc == 0:
        ctx.skip("constant target")
        return
    ctx.true("no-training-sample-below", float(sc.min()) >= -1e-9 * ysc, "a training sample lies %.3e below the hull" % sc.min())
    ctx.true("selected-zero-distance", float(np.abs(sc[list(sel)]).max()) <= 1e-9 * ysc, "selected sample with distance %.3e" % np.abs(sc[list(sel)]).max())
    if hd > 0:
        with ctx.lib("score_feature_matrix"):
            fm = np.asarray(d.score_feature_matrix(X))
        ctx.true("selected-zero-residual", float(np.nanmax(np.abs(fm[list(sel)]))) <= 1e-8 * max(1.0, np.abs(X).max()),
                 "high-dimensional residual of a selected sample %.3e" % np.nanmax(np.abs(fm[list(sel)])))
        ctx.true("residual-shape", fm.shape == (n, hd), "score_feature_matrix shape %s" % (fm.shape,))
    # every sample is scored independently of which other samples are scored in the same call
    if n >= 2:
        cut = max(1, n // 3)
        with ctx.lib("score_samples(split)"):
            sa, sb = np.asarray(d.score_samples(X[:cut], y[:cut])), np.asarray(d.score_samples(X[cut:], y[cut:]))
        ctx.close("row-independence:score_samples", np.r_[sa, sb], sc, 1e-12 * max(1.0, ysc), "scores of a batch vs the same rows scored in two calls")
        if hd > 0:
            with ctx.lib("score_feature_matrix(split)"):
                fa, fb = np.asarray(d.score_feature_matrix(X[:cut])), np.asarray(d.score_feature_matrix(X[cut:]))
            if fa.shape != (cut, hd) or fb.shape != (n - cut, hd) or np.asarray(fm).shape != (n, hd):
                ctx.fail("row-independence:score_feature_matrix", "shapes %s / %s / %s for %d + %d rows and %d high-dimensional columns"
                         % (fa.shape, fb.shape, np.asarray(fm).shape, cut, n - cut, hd))
                return
            both = np.vstack([fa, fb])
            if both.shape == np.asarray(fm).shape:
                # a sample on the rim of the footprint is inside or outside the triangulation by rounding (scipy answers NaN
                # outside, and its simplex search starts from the previous query): compared where both answers are numbers
                fin = np.isfinite(both) & np.isfinite(np.asarray(fm))
                ctx.count("rim_residuals_undefined", int((~fin).sum()))
                ctx.close("row-independence:score_feature_matrix", np.where(fin, both, 0.0), np.where(fin, np.asarray(fm), 0.0),
                          1e-12 * max(1.0, np.abs(X).max()), "residuals of a batch vs two calls")
            else:
                ctx.fail("row-independence:score_feature_matrix", "shape %s for %d rows and %d high-dimensional columns" % (np.asarray(fm).shape, n, hd))
    if case.get("large"):
        ctx.nontrivial = True
        return          # the LP oracle is quadratic in n: the large enumerated cases use the relations above only
    n_sel = n_unsel = 0
    for i in range(n):
        h = hull_height(P, y, P[i], exclude=i)
        if h is None:
            want, margin = True, np.inf
        else:
            margin = h - y[i]
            want = margin > 0
        if abs(margin) < 1e-7 * ysc:
            ctx.skip("vertex decision: LP margin below 1e-7 range(y)")
            continue
        if want != (i in sel):
            ctx.fail("selection", "sample %d: lower-hull vertex by LP = %s (margin %.3e), selected = %s" % (i, want, margin, i in sel))
        if not want:
            ctx.true("unselected-positive", sc[i] > 0, "unselected sample %d has distance %.3e" % (i, sc[i]))
            n_unsel += 1
        else:
            n_sel += 1
        hh = hull_height(P, y, P[i])
        if hh is not None:
            ctx.true("distance==vertical-offset", abs(sc[i] - (y[i] - hh)) <= 1e-7 * ysc,
                     "sample %d: distance %.9g, vertical offset %.9g" % (i, sc[i], y[i] - hh))
        if ctx.problems:
            return
    ctx.count("vertices_decided", n_sel)
    ctx.count("non_vertices_decided", n_unsel)
    # queries inside the footprint
    for lam, off in zip(case["qlam"], case["qoff"] * ysc):
        xq = lam @ P
        hq = hull_height(P, y, xq)
        if hq is None:
            continue
        Xq = np.zeros((1, F))
        Xq[0, low] = xq
        with ctx.lib("score_samples(query)"):
            s = float(d.score_samples(Xq, np.array([hq + off]))[0])
        if off > 1e-6 * ysc:
            ctx.true("query-above", abs(s - off) <= 1e-7 * ysc, "query %.6g above the hull scored %.9g" % (off, s))
        elif off < -1e-6 * ysc:
            ctx.true("query-below-negative", s < 0, "query %.6g below the hull scored %.9g" % (off, s))
        ctx.count("queries")
    # metamorphic: points strictly above the hull do not change the selection
    xa = case["alam"] @ P
    if len(xa) >= 1 and not case.get("large"):
        # ... including one placed exactly above an existing sample (a hull vertex when there is one among the first rows)
        pick = min(sel) if sel else 0
        xa = np.vstack([xa, P[pick]])
        case = dict(case)
        case["aoff"] = np.r_[case["aoff"], 0.5 + abs(case["b"]) % 1.0]
        case["ahigh"] = np.vstack([case["ahigh"], X[pick]])
    ha = [hull_height(P, y, x) for x in xa]
    if all(h is not None for h in ha):
        ya = np.array(ha) + case["aoff"] * ysc
        Xa = case["ahigh"].copy()
        Xa[:, low] = xa
        with ctx.lib("fit+added"):
            d2 = DCH(low_dim_idx=list(low)).fit(np.vstack([X, Xa]), np.r_[y, ya])
        ctx.true("added-above-unchanged", set(int(i) for i in d2.selected_idx_) == sel, "selection changed after adding points above the hull: %s vs %s"
                 % (sorted(int(i) for i in d2.selected_idx_), sorted(sel)))
    a, b = case["a"], case["b"]
    with ctx.lib("fit-affine"):
        d3 = DCH(low_dim_idx=list(low)).fit(X, a * y + b)
        sc3 = np.asarray(d3.score_samples(X, a * y + b))
    ctx.true("affine-selection", set(int(i) for i in d3.selected_idx_) == sel, "selection changed under y -> %.3g y + %.3g" % (a, b))
    ctx.close("affine-distances-scale", sc3, a * sc, 1e-8 * a * ysc + 1e-12 * abs(b), "distances under a positive affine map of y")
    if n_sel >= 1 and n_unsel >= 1:
        ctx.nontrivial = True


def summarize(case):
    return {"n": int(case["X"].shape[0]), "features": int(case["X"].shape[1]), "low_dim_idx": list(case["low"]), "convex": case["convex"],
            "a": case["a"], "b": case["b"], "y_first": np.round(case["y"][:5], 4).tolist()}

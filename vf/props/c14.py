"""C14 - PCovR's projectors form a consistent, nested, orthogonal decomposition."""

import numpy as np
from hypothesis import strategies as st
from sklearn.linear_model import Ridge

from skmatter.decomposition import PCovR
from vf import gen, pc

ID = "C14"
TITLE = "PCovR's projectors form a consistent, nested, orthogonal decomposition"
TECHNIQUE = 'Hypothesis PBT of the projector identities for every k with a dense eigendecomposition oracle'
LEVEL = 'Generated-input exploration: for every k from 1 to min(n,m) the algebraic identities (transform, predict, orthogonality and norms, round trip, nesting, loss monotonicity, score, 1-D shapes, new data) are checked. No absence claim: strength = the counted distinct non-trivial cases in the evidence.'
BUDGET = {"quick": 250, "thorough": 7000}
RULE = ("Cases: centred unit-variance X (tall/wide/square, 30% rank-deficient; 3..14, thorough to 36), Y = XB + noise with 1..3 "
        "targets (1-D y when one target and a drawn flag), mixing in {.05,.3,.5,.9,1}, both spaces, Ridge(alpha) without intercept, "
        "new data of 1..6 rows; every k from 1 to min(n,m) is fitted with the full solver; one extra fit per case on a 14..120 x 12..90 data set with a truncated solver (randomized / arpack / auto, k <= min(12, min(n,m)-11)) for the solver-independent identities.  Oracle: dense eigh of the modified Gram "
        "matrix built from an independent closed-form Yhat, plus the algebraic identities of the property.  Non-trivial: at least two "
        "values of k whose retained eigenvalue is non-zero (> 1e-8 lambda_1); distinct = SHA-1 of the canonical case.")
ASSUMPTIONS = [
    "components whose eigenvalue is below 1e-8 x lambda_1 are exempt from norm / round-trip / nesting checks (the code zeroes them)",
    "nesting is compared per component only where the eigenvalue is separated by a relative gap > 1e-6 (tolerance 1e-7/gap)",
]


@st.composite
def strategy_(draw, tier):
    d = draw(pc.xy(tier if tier == "quick" else "quick"))
    if tier == "thorough" and draw(st.booleans()):
        d = draw(pc.xy("thorough"))
        if max(d["X"].shape) > 36:
            d = draw(pc.xy("quick"))
    X, Y = d["X"], d["Y"]
    n, m = X.shape
    q = draw(st.integers(1, 6))
    Xnew = gen.normal(draw, (q, m)) * draw(st.sampled_from([0.1, 1.0, 3.0])) + draw(st.sampled_from([0.0, 0.0, 1.0])) * gen.normal(draw, (m,))
    Ynew = gen.normal(draw, (q, Y.shape[1])) + draw(st.sampled_from([0.0, 1.0]))
    # a larger data set for the truncated solvers (their sketch / Krylov space must not span the whole matrix)
    ns, ms = draw(st.integers(14, 120)), draw(st.integers(12, 90))
    Xs = gen.normal(draw, (ns, ms)) * np.exp(0.5 * gen.normal(draw, (ms,)))
    Xs = Xs - Xs.mean(0)
    Ys = Xs @ gen.normal(draw, (ms, draw(st.integers(1, 3)))) + 0.3 * gen.normal(draw, (ns, 1))
    Ys = Ys - Ys.mean(0)
    trunc = {"X": Xs, "Y": Ys, "k": draw(st.integers(1, max(1, min(min(ns, ms) - 11, 12)))), "solver": draw(st.sampled_from(["randomized", "arpack", "auto"])),
             "seed": draw(st.integers(0, 9)), "Xnew": gen.normal(draw, (3, ms))}
    return {"shape": d["shape"], "lowrank": d["lowrank"], "X": X, "Y": Y, "Xnew": Xnew, "Ynew": Ynew, "trunc": trunc,
            "mixing": draw(st.sampled_from([0.05, 0.3, 0.5, 0.9, 1.0])),
            "space": draw(st.sampled_from(["feature", "sample"])),
            "alpha": draw(st.sampled_from([1e-6, 1e-2, 1.0])),
            "y1d": Y.shape[1] == 1 and draw(st.booleans())}


def strategy(tier):
    return strategy_(tier)


def check(case, ctx):
    X, Y, Xnew, mix, space, a = case["X"], case["Y"], case["Xnew"], case["mixing"], case["space"], case["alpha"]
    n, m = X.shape
    ctx.cls("shape=" + case["shape"], "lowrank=%s" % case["lowrank"], "space=" + space, "mixing=%g" % mix, "y1d=%s" % case["y1d"])
    if pc.grey_zone(X):
        ctx.skip("grey-zone eigenvalue of X^T X")
        return
    Yfit = Y[:, 0] if case["y1d"] else Y
    if case["y1d"] and case["Xnew"].shape[0] % 2:
        Yfit = Yfit.tolist()              # array-like: a plain list of numbers is a 1-D target too
        ctx.cls("y=list")
    Yhat = X @ np.linalg.solve(X.T @ X + a * np.eye(m), X.T @ Y)
    w, U = pc.ktilde_eig(X, Yhat, mix)
    sc = w[0]
    if sc <= 0:
        ctx.skip("zero modified Gram matrix")
        return
    nX2, nY2 = float((X ** 2).sum()), float((Y ** 2).sum())
    prevT = None
    lx, ly = [], []
    retained_ks = 0
    for k in range(1, min(n, m) + 1):
        reg = Ridge(alpha=a, fit_intercept=False, tol=1e-12)
        with ctx.lib("fit(k=%d)" % k):
            p = PCovR(mixing=mix, n_components=k, space=space, regressor=reg, svd_solver="full").fit(X, Yfit)
            T = p.transform(X)
            Tn = p.transform(Xnew)
            pX = p.predict(X)
            pT = p.predict(T=T)
            pXn = p.predict(Xnew)
            pTn = p.predict(T=Tn)
            R = p.inverse_transform(T)
            T2 = p.transform(R)
            s = p.score(X, Yfit)
        wh = "k=%d" % k
        keep = w[:k] / sc > 1e-8
        if keep[-1]:
            retained_ks += 1
        # projector algebra
        ctx.true("shapes", T.shape == (n, k) and Tn.shape == (len(Xnew), k) and p.pxt_.shape == (m, k) and p.ptx_.shape == (k, m),
                 "%s shapes T%s pxt%s ptx%s" % (wh, T.shape, p.pxt_.shape, p.ptx_.shape))
        ctx.close("transform==X@pxt", T, X @ p.pxt_, 1e-9 * max(1.0, np.sqrt(sc)), wh + " training data")
        ctx.close("transform(new)==Xnew@pxt", Tn, Xnew @ p.pxt_, 1e-9 * max(1.0, np.abs(Xnew).max() * np.sqrt(sc)), wh + " new data")
        ctx.close("predict(X)==predict(T)", np.asarray(pX), np.asarray(pT), 1e-8 * max(1.0, np.abs(Y).max()), wh + " training data")
        ctx.close("predict(Xnew)==predict(T(Xnew))", np.asarray(pXn), np.asarray(pTn), 1e-8 * max(1.0, np.abs(Y).max()) * max(1.0, np.abs(Xnew).max()), wh + " new data")
        # one-dimensional y
        if case["y1d"]:
            ctx.true("1d-shapes", np.asarray(pX).shape == (n,) and p.pxy_.shape == (m,) and p.pty_.shape == (k,) and np.asarray(pXn).shape == (len(Xnew),),
                     "%s 1-D y gives predict %s pxy_ %s pty_ %s" % (wh, np.asarray(pX).shape, p.pxy_.shape, p.pty_.shape))
        else:
            ctx.true("2d-shapes", np.asarray(pX).shape == Y.shape and p.pxy_.shape == (m, Y.shape[1]) and p.pty_.shape == (k, Y.shape[1]),
                     "%s 2-D y gives predict %s pxy_ %s pty_ %s" % (wh, np.asarray(pX).shape, p.pxy_.shape, p.pty_.shape))
        # orthogonality and norms
        TT = T.T @ T
        off = TT - np.diag(np.diag(TT))
        ctx.true("latent-orthogonal", float(np.abs(off).max()) <= 1e-7 * sc if k > 1 else True,
                 "%s off-diagonal of T^T T up to %.3e" % (wh, np.abs(off).max()))
        if keep.any():
            ctx.close("latent-norms==eigenvalues", np.diag(TT)[keep], w[:k][keep], 1e-7 * sc, wh)
            ctx.close("roundtrip", T2[:, keep], T[:, keep], 1e-6 * np.sqrt(sc), wh + " transform(inverse_transform(T))")
        # score
        yy = np.asarray(pT).reshape(n, -1)
        lX = float(((X - R) ** 2).sum())
        lY = float(((Y - yy) ** 2).sum())
        ctx.close("score", s, -(lX / nX2 + lY / nY2), 1e-9 * (1 + lX / nX2 + lY / nY2), wh + " score vs -(lX+lY)")
        lx.append(lX)
        ly.append(lY)
        # the same identity on new (not centred) data
        if "Ynew" in case:
            Yn = case["Ynew"]
            with ctx.lib("score(new data)"):
                sn = p.score(Xnew, Yn[:, 0] if case["y1d"] else Yn)
                Rn = p.inverse_transform(Tn)
            yn = np.asarray(pTn).reshape(len(Xnew), -1)
            lXn = float(((Xnew - Rn) ** 2).sum()) / float((Xnew ** 2).sum())
            lYn = float(((Yn - yn) ** 2).sum()) / float((Yn ** 2).sum())
            ctx.close("score(new data)", sn, -(lXn + lYn), 1e-9 * (1 + lXn + lYn), wh + " score on new data vs -(lX+lY)")
        # nestedness
        if prevT is not None:
            for j in range(k - 1):
                up = (w[j - 1] - w[j]) / sc if j > 0 else 1.0
                dn = (w[j] - (w[j + 1] if j + 1 < n else 0.0)) / sc
                g = min(up, dn)
                if g > 1e-6 and w[j] / sc > 1e-8:
                    d = float(np.abs(T[:, j] - prevT[:, j]).max())
                    ctx.count("nested_components_compared")
                    if d > (1e-7 / g) * np.sqrt(sc):
                        ctx.fail("nested", "component %d for k=%d differs from the one for k=%d by %.3e (gap %.1e)" % (j, k, k - 1, d, g))
        prevT = T
        if ctx.problems:
            return
    if "trunc" in case:
        truncated_solver_algebra(case, ctx)
    ctx.true("loss-X-nonincreasing", bool(np.all(np.diff(lx) <= 1e-8 * nX2)), "training X losses %s" % np.round(lx, 9).tolist())
    ctx.true("loss-Y-nonincreasing", bool(np.all(np.diff(ly) <= 1e-8 * nY2)), "training Y losses %s" % np.round(ly, 9).tolist())
    ctx.count("fits", min(n, m))
    if retained_ks >= 2:
        ctx.nontrivial = True


def truncated_solver_algebra(case, ctx):
    """The projector identities do not depend on how the eigenvectors were obtained: they are checked once per case on a larger data
    set with a truncated solver (whatever subspace it returns, transform / predict / inverse_transform / score must be consistent)."""
    t = case["trunc"]
    X, Y, k = t["X"], t["Y"], t["k"]
    n, m = X.shape
    a, mix, space = case["alpha"], case["mixing"], case["space"]
    ctx.cls("truncated=" + t["solver"])
    with ctx.lib("fit(truncated solver)"):
        p = PCovR(mixing=mix, n_components=k, space=space, regressor=Ridge(alpha=a, fit_intercept=False, tol=1e-12), svd_solver=t["solver"],
                  random_state=t["seed"]).fit(X, Y)
        T = p.transform(X)
        Tn = p.transform(t["Xnew"])
        pX, pT = np.asarray(p.predict(X)), np.asarray(p.predict(T=T))
        R = p.inverse_transform(T)
        T2 = p.transform(R)
        Tn2 = p.transform(p.inverse_transform(Tn))
        s = p.score(X, Y)
    wh = "%s solver, %s space, k=%d of %dx%d" % (t["solver"], space, k, n, m)
    tsc = max(1.0, float(np.abs(T).max()))
    ctx.close("truncated:transform==X@pxt", T, X @ p.pxt_, 1e-9 * tsc, wh)
    ctx.close("truncated:predict(X)==predict(T)", pX, pT, 1e-8 * max(1.0, float(np.abs(Y).max())), wh)
    # in sample space the round trip is S^-1/2 V^T K~ V S^-1/2, the identity only as far as V are converged eigenvectors: with the
    # randomized solver that is the accuracy of the sketch, not of the arithmetic (in feature space it only needs V^T V = I)
    if space == "sample" and getattr(p, "fit_svd_solver_", t["solver"]) == "randomized":
        ctx.skip("truncated: round trip limited by the accuracy of the randomized sketch (sample space)")
        T2, Tn2 = T, Tn
    ctx.close("truncated:roundtrip", T2, T, 1e-8 * tsc, wh + " transform(inverse_transform(T)) on the training set")
    ctx.close("truncated:roundtrip(new)", Tn2, Tn, 1e-8 * max(1.0, float(np.abs(Tn).max())), wh + " transform(inverse_transform(T)) on new data")
    lX = float(((X - R) ** 2).sum()) / float((X ** 2).sum())
    lY = float(((Y - pT.reshape(n, -1)) ** 2).sum()) / float((Y ** 2).sum())
    ctx.close("truncated:score", s, -(lX + lY), 1e-9 * (1 + lX + lY), wh + " score vs -(lX+lY)")
    ctx.count("truncated_solver_fits")


def summarize(case):
    return {"shape": list(case["X"].shape), "targets": int(case["Y"].shape[1]), "lowrank": case["lowrank"], "space": case["space"],
            "alpha": case["alpha"], "mixing": case["mixing"], "y1d": case["y1d"], "n_new": int(len(case["Xnew"])),
            "X_first_row": np.round(case["X"][0], 4).tolist()}

"""C02 - FPS and PCov-FPS pick a farthest candidate each step and report true distances."""

import numpy as np
from hypothesis import strategies as st

from vf import gen, sel as S

ID = "C02"
TITLE = "FPS and PCov-FPS pick a farthest candidate each step and report true distances"
TECHNIQUE = 'Hypothesis PBT against a brute-force O(n^2) distance oracle with tie-aware validity predicate'
LEVEL = 'Generated-input exploration: each selection step is judged against dense distance matrices built independently (explicit differences; independently assembled PCovR Gram/covariance), reported distances and tables are compared with the true minima, feature/sample duality is a metamorphic cross-check. No absence claim: strength = the counted distinct non-trivial cases in the evidence.'
BUDGET = {"quick": 2000, "thorough": 20000}
RULE = ("Cases: FPS / PCovFPS x {feature, sample}; X kinds lattice (exact ties), clustered, dup, eighths, generic, lowrank, "
        "scaled, tiny (x1e-5..1e-9) and huge (x1e4..1e6) global units, 2..12 x 2..10 (thorough: to 60 x 30); y normal/lattice/linear; mixing in {0,.1,.5,.9,.99} or a drawn float in "
        "[0,1); initial index int / 'random' / list / ndarray; request None/int/float up to N.  Oracle: dense squared-distance "
        "matrix by explicit differences (FPS) or D_ij=M_ii+M_jj-2M_ij from an independently built PCovR Gram / covariance "
        "matrix; every step judged against the actually selected prefix (tie-aware validity predicate).  Non-trivial: >= 3 "
        "selections; distinct = SHA-1 of the canonical case.")
ASSUMPTIONS = [
    "tolerance 1e-9 x largest squared norm (largest diagonal of the PCovR matrix): the library uses the dot-product formula",
    "feature PCov-FPS cases with an eigenvalue of X^T X inside [1e-14,1e-10] (grey zone of the documented 1e-12 cut-off) are skipped",
    "entries of the distance table that belong to selected items are not judged (docstring and code disagree on their meaning)",
    "'random' initialisation is judged as reproducible and in range, not against a particular RNG call",
]


@st.composite
def strategy_(draw, tier):
    cls = draw(st.sampled_from(["FPS", "PCovFPS"]))
    direction = draw(st.sampled_from(["feature", "sample"]))
    n, m = S.draw_shape(draw, tier, thorough=(60, 30))
    kind = draw(st.sampled_from(["lattice", "lattice", "clustered", "dup", "eighths", "generic", "lowrank", "scaled", "tiny", "huge", "narrowint"]))
    X = gen.matrix(draw, n, m, kind)
    N = S.n_items(X, direction)
    y = S.draw_y(draw, n, X) if (cls == "PCovFPS" or draw(st.booleans())) else None
    params = {}
    n_init = 1
    forms = ["int", "int", "random"] + (["list", "array"] if cls == "FPS" else [])
    form = draw(st.sampled_from(forms))
    if form == "int":
        params["initialize"] = draw(st.integers(0, N - 1))
    elif form == "random":
        params["initialize"] = "random"
        params["random_state"] = draw(st.integers(0, 7))
    else:
        idx = draw(st.lists(st.integers(0, N - 1), min_size=1, max_size=N, unique=True))
        n_init = len(idx)
        params["initialize"] = idx if form == "list" else np.array(idx, dtype=int)
    if cls == "PCovFPS":
        params["mixing"] = draw(st.one_of(st.sampled_from([0.0, 0.1, 0.5, 0.9, 0.99]),
                                          st.floats(0, 0.96875, width=32)))
    req = S.draw_request(draw, N, minimum=n_init, forms=("int", "int", "int", "none", "float"))
    if kind == "narrowint":
        y = S.narrow(draw, X, y, params)
    return {"cls": cls, "direction": direction, "kind": kind, "X": X, "y": y, "params": params, "request": req}


def strategy(tier):
    return strategy_(tier)


def oracle_D(case, ctx):
    X, y, cls, direction = case["X"], case["y"], case["cls"], case["direction"]
    if cls == "FPS":
        D = S.fps_D(X, direction)
        Z = X if direction == "sample" else X.T
        scale = float((Z ** 2).sum(1).max())
        return D, scale
    M, amb = S.pcov_M(X, y, case["params"]["mixing"], direction)
    if amb:
        return None, None
    return S.D_from_M(M), float(np.abs(np.diag(M)).max())


def judge_sequence(ctx, D, idx, n_init, tol, tag=""):
    """Validity of a farthest-point sequence w.r.t. its own prefix.  Returns (true minima per
    selection, tie_free flag)."""
    N = D.shape[0]
    mins = [np.inf]
    tie_free = True
    sel = [int(idx[0])]
    for t in range(1, len(idx)):
        mind = D[:, sel].min(1)
        it = int(idx[t])
        mins.append(float(mind[it]))
        if t >= n_init:
            cand = np.ones(N, bool)
            cand[sel] = False
            best = float(mind[cand].max())
            if mind[it] < best - tol:
                ctx.fail(tag + "not-farthest", "step %d picks item %d at distance %.9g, farthest candidate is at %.9g"
                         % (t, it, mind[it], best))
            srt = np.sort(mind[cand])[::-1]
            if len(srt) > 1 and srt[0] - srt[1] <= 10 * tol:
                tie_free = False
        sel.append(it)
    return np.array(mins), tie_free


def check(case, ctx):
    cls, direction, X, y = case["cls"], case["direction"], case["X"], case["y"]
    N = S.n_items(X, direction)
    ctx.cls("cls=%s/%s" % (cls, direction), "kind=" + case["kind"])
    D, scale = oracle_D(case, ctx)
    if D is None:
        ctx.skip("grey-zone eigenvalue of X^T X (feature PCov-FPS)")
        return
    tol = 1e-9 * scale + 1e-300
    sel = S.make(cls, direction, n_to_select=case["request"], **case["params"])
    with ctx.lib("fit"):
        sel.fit(X, y)
    idx = np.array(sel.selected_idx_, copy=True)
    with ctx.lib("get_support"):
        sel.get_support(indices=True)               # the unordered query must not disturb the selection order
    ctx.equal("order-intact-after-query", np.asarray(sel.selected_idx_), idx, "selected_idx_ after get_support(indices=True)")
    ctx.true("distinct", len(set(idx.tolist())) == len(idx), "repeated index in %s" % idx.tolist())
    if len(set(idx.tolist())) != len(idx) or np.any(idx < 0) or np.any(idx >= N):
        ctx.fail("invalid-indices", str(idx.tolist()))
        return
    init = case["params"]["initialize"]
    if isinstance(init, str):
        n_init = 1
        sel2 = S.make(cls, direction, n_to_select=case["request"], **case["params"])
        with ctx.lib("refit"):
            sel2.fit(X, y)
        ctx.true("random-reproducible", int(sel2.selected_idx_[0]) == int(idx[0]),
                 "two fits with the same random_state start at %d and %d" % (idx[0], sel2.selected_idx_[0]))
        # ... and refitting the same instance draws the same initial index again
        with ctx.lib("refit-same-instance"):
            sel.fit(X, y)
        ctx.equal("random-reproducible-on-refit", np.asarray(sel.selected_idx_), idx, "selection after fitting the same instance a second time")
        ctx.cls("init=random")
    elif isinstance(init, (list, np.ndarray)):
        n_init = len(init)
        ctx.equal("initial-list", idx[:n_init], np.asarray(init), "first selections vs initialize")
        ctx.cls("init=list%d" % min(n_init, 3))
    else:
        n_init = 1
        ctx.true("initial-index", int(idx[0]) == int(init), "first selection %d, initialize=%d" % (idx[0], init))
        ctx.cls("init=int")
    mins, tie_free = judge_sequence(ctx, D, idx, n_init, tol)
    ctx.cls("tie_free=%s" % tie_free)
    ctx.count("steps_judged", max(0, len(idx) - n_init))
    with ctx.lib("get_select_distance"):
        sd = np.asarray(sel.get_select_distance(), float)
        hd = np.asarray(sel.get_distance(), float)
    if ctx.true("select-distance-shape", sd.shape == (len(idx),), "shape %s for %d selections" % (sd.shape, len(idx))):
        ctx.true("select-distance-first", np.isinf(sd[0]) and sd[0] > 0, "first reported distance %r (nothing selected before)" % sd[0])
        if len(idx) > 1:
            ctx.close("select-distance==true-min", sd[1:], mins[1:], tol, "reported distance at selection vs oracle")
            loop = sd[n_init:]
            if len(loop) > 1:
                inc = np.diff(loop)
                ctx.true("select-distance-monotone", bool(np.all(inc <= 2 * tol)),
                         "reported distances increase by %.3e along the selection" % inc.max())
    true_final = D[:, idx].min(1)
    unsel = np.ones(N, bool)
    unsel[idx] = False
    if ctx.true("table-shape", hd.shape == (N,), "shape %s" % (hd.shape,)) and unsel.any():
        ctx.close("table==true-min", hd[unsel], true_final[unsel], tol, "distance table on unselected items")
    # duality: sample FPS on X == feature FPS on X^T
    if cls == "FPS" and tie_free and not isinstance(init, str):
        other = "feature" if direction == "sample" else "sample"
        p = dict(case["params"])
        dual = S.make("FPS", other, n_to_select=case["request"], **p)
        with ctx.lib("dual-fit"):
            dual.fit(X.T.copy(), None)
        ctx.equal("duality", np.asarray(dual.selected_idx_), idx, "FPS(%s) on X^T vs FPS(%s) on X" % (other, direction))
        ctx.count("duality_checked")
    if len(idx) >= 3:
        ctx.nontrivial = True
    if cls == "PCovFPS":
        ctx.cls("mixing0=%s" % (case["params"]["mixing"] == 0.0))


def summarize(case):
    X = case["X"]
    return {"cls": case["cls"], "direction": case["direction"], "kind": case["kind"], "shape": list(X.shape),
            "params": {k: (v.tolist() if isinstance(v, np.ndarray) else v) for k, v in case["params"].items()},
            "request": case["request"], "X_first_row": np.round(X[0], 4).tolist()}

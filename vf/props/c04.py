"""C04 - PCovR interpolates optimally and monotonically between PCA and regression."""

import numpy as np
from hypothesis import strategies as st
from sklearn.decomposition import PCA
from sklearn.linear_model import LinearRegression, Ridge

from skmatter.decomposition import PCovR
from vf import gen, pc

ID = "C04"
TITLE = "PCovR interpolates optimally and monotonically between PCA and regression"
TECHNIQUE = 'Hypothesis PBT with reference oracles (PCA, least squares, Ky-Fan optimum) and competitor subspaces (metamorphic perturbation)'
LEVEL = 'Generated-input exploration: end points against sklearn PCA and X pinv(X) Y, optimality against the analytic optimum and 12-30 competitor subspaces per case, monotone trade-off along drawn mixing grids. No absence claim: strength = the counted distinct non-trivial cases in the evidence.'
BUDGET = {"quick": 600, "thorough": 12000}
RULE = ("Cases: centred unit-variance X (tall/wide/square, 30% rank-deficient), Y = XB + noise (1..3 targets), k in "
        "1..min(n,m), space feature/sample, Ridge(alpha in {1e-6,1e-2,1}) without intercept, one drawn mixing in "
        "{0,.1,.3,.5,.7,.9,1} for the optimality check and a drawn increasing grid of 3..6 mixings in [0,1] for the monotonicity "
        "check.  Oracles: sklearn PCA(full) for mixing=1; X pinv(X) Y for mixing=0 with LinearRegression on well-conditioned tall "
        "X; optimal value of the mixed objective by the Ky-Fan bound trace(K~) - sum of its top-k eigenvalues, and 12 "
        "(thorough: 30) competitor k-frames per case (random, PCA's, leading frame of [Yhat,X], perturbations of PCovR's own "
        "frame at scales 1e-1..1e-3).  Non-trivial: 0 < mixing < 1, k below the rank of K~, both loss terms > 1e-6; "
        "distinct = SHA-1 of the canonical case.  A quarter of the cases carry a second, small data set with nearly collinear features "
        "(condition number 1e7..1e9) for the precomputed-regression route in sample space; a sixth carry a 28..60 x 24..45 data set with a "
        "flat spectrum that is fitted with the default solver policy and held to the Ky-Fan optimum.")
ASSUMPTIONS = [
    "objective values are compared with tolerance 1e-8 x max(objective, 1); losses along the mixing grid with 1e-7 x max(1, |X|^2)",
    "coordinate comparisons with PCA are made per component only where its eigenvalue is separated by a relative gap > 1e-6",
    "the unregularised limit is checked only for full-column-rank, well-conditioned tall X",
]


@st.composite
def strategy_(draw, tier):
    d = draw(pc.xy(tier))
    X, Y = d["X"], d["Y"]
    n, m = X.shape
    k = draw(st.integers(1, min(n, m)))
    grid = sorted(set(draw(st.lists(st.sampled_from([0.0, 0.05, 0.1, 0.25, 0.4, 0.5, 0.6, 0.75, 0.9, 0.95, 1.0]),
                                    min_size=3, max_size=6))))
    ill = None
    if draw(st.integers(0, 3)) == 0:
        # nearly (not exactly) collinear features, condition number 1e7..1e9: still full rank for every documented cut-off
        ni, mi = draw(st.integers(4, 14)), draw(st.integers(3, 14))
        Xi = gen.normal(draw, (ni, mi))
        Xi[:, -1] = Xi[:, 0] - 0.5 * Xi[:, 1] + draw(st.sampled_from([1e-7, 1e-8])) * gen.normal(draw, (ni,))
        Xi = pc.centre_norm(Xi)
        Yi = pc.centre_norm(Xi @ gen.normal(draw, (mi, draw(st.integers(1, 2)))) + 0.5 * gen.normal(draw, (ni, 1)))
        ill = {"X": Xi, "Y": Yi}
    large = None
    if draw(st.integers(0, 5)) == 0:
        # a larger data set with a flat spectrum, fitted with the DEFAULT solver policy: whatever route that policy takes, the
        # retained subspace has to be the optimum (for data this small the documented policy is the exact solver)
        nl, ml = draw(st.integers(28, 60)), draw(st.integers(24, 45))
        Xl = pc.centre_norm(gen.normal(draw, (nl, ml)))
        Yl = pc.centre_norm(Xl @ gen.normal(draw, (ml, 2)) + 0.5 * gen.normal(draw, (nl, 2)))
        large = {"X": Xl, "Y": Yl, "k": draw(st.integers(1, 4)), "mixing": draw(st.sampled_from([0.3, 0.7, 1.0]))}
    return {"shape": d["shape"], "lowrank": d["lowrank"], "X": X, "Y": Y, "k": k, "ill": ill, "large": large,
            "space": draw(st.sampled_from(["feature", "sample"])),
            "alpha": draw(st.sampled_from([1e-6, 1e-2, 1.0])),
            "mixing": draw(st.sampled_from([0.0, 0.1, 0.3, 0.5, 0.7, 0.9, 1.0])),
            "grid": grid, "cseed": draw(gen.SEEDS), "klr_extra": draw(st.integers(0, 1)), "prior_use": draw(st.booleans()),
            "reuse_estimator": draw(st.booleans())}


def strategy(tier):
    return strategy_(tier)


def frame_of(T, sc):
    """Orthonormal basis of the span of the non-zero latent coordinates."""
    nz = np.linalg.norm(T, axis=0) > 1e-7 * np.sqrt(sc)
    if not nz.any():
        return np.zeros((T.shape[0], 0))
    Q, _ = np.linalg.qr(T[:, nz])
    return Q


def losses(Q, X, Yhat):
    PX = X - Q @ (Q.T @ X)
    PY = Yhat - Q @ (Q.T @ Yhat)
    return float((PX ** 2).sum()), float((PY ** 2).sum())


def near_collinear_precomputed(case, ctx):
    """Precomputed regression (Yhat given, weights derived by the estimator) on nearly collinear features, sample-space route: every
    direction of X lies far above the documented relative cut-off 1e-12, so the regression limit and the spectrum of the latent
    coordinates must still hold (tolerance 1e-5: the weights are of size 1/sigma_min)."""
    X, Y = case["ill"]["X"], case["ill"]["Y"]
    n, m = X.shape
    s = np.linalg.svd(X, compute_uv=False)
    r = int((s > 1e-11 * s[0]).sum())
    if r < min(n - 1, m) or s[r - 1] < 1e-10 * s[0]:
        ctx.skip("near-collinear: a singular value too close to the cut-off")
        return
    U = np.linalg.svd(X, full_matrices=False)[0][:, :r]
    Yhat = U @ (U.T @ Y)                       # least-squares fit of Y on the span of X
    ry = int(np.linalg.matrix_rank(Yhat))
    ctx.cls("near_collinear")
    with ctx.lib("fit(near-collinear, precomputed)"):
        p0 = PCovR(mixing=0.0, n_components=min(min(n, m), ry), space="sample", regressor="precomputed", svd_solver="full").fit(X, Yhat)
        pr = np.asarray(p0.predict(X)).reshape(n, -1)
        p5 = PCovR(mixing=0.5, n_components=min(2, min(n, m)), space="sample", regressor="precomputed", svd_solver="full").fit(X, Yhat)
        T = p5.transform(X)
    ctx.close("regression-limit(near-collinear)", pr, Yhat, 1e-5 * max(1.0, np.abs(Yhat).max()), "mixing=0 predictions vs the given regression (sample space, precomputed)")
    w, _ = pc.ktilde_eig(X, Yhat, 0.5)
    kk = T.shape[1]
    ctx.close("latent-spectrum(near-collinear)", np.sort(np.diag(T.T @ T))[::-1], w[:kk], 1e-5 * w[0], "squared norms of the latent coordinates vs eigenvalues of K~")
    ctx.count("near_collinear_checked")


def default_solver_optimum(case, ctx):
    L = case["large"]
    X, Y, k, mix = L["X"], L["Y"], L["k"], L["mixing"]
    a = case["alpha"]
    n, m = X.shape
    Yhat = X @ np.linalg.solve(X.T @ X + a * np.eye(m), X.T @ Y)
    w, _ = pc.ktilde_eig(X, Yhat, mix)
    if w[0] <= 0:
        return
    ctx.cls("default_solver_large")
    with ctx.lib("fit(default solver, larger data)"):
        p = PCovR(mixing=mix, n_components=k, space=case["space"], regressor=Ridge(alpha=a, fit_intercept=False, tol=1e-12)).fit(X, Y)
        T = p.transform(X)
    Q = frame_of(T, w[0])
    lx, ly = losses(Q, X, Yhat)
    best = float(mix * (X ** 2).sum() + (1 - mix) * (Yhat ** 2).sum() - w[:k].sum())
    val = mix * lx + (1 - mix) * ly
    ctx.true("optimal-value(default solver)", val <= best + 1e-8 * max(1.0, abs(best), float((X ** 2).sum())),
             "%dx%d data, k=%d, mixing %g, svd_solver left at its default: objective %.10g exceeds the optimum %.10g" % (n, m, k, mix, val, best))
    ctx.count("default_solver_large_checked")


def check(case, ctx):
    if case.get("ill") is not None:
        near_collinear_precomputed(case, ctx)
    if case.get("large") is not None:
        default_solver_optimum(case, ctx)
    X, Y, k, space, a = case["X"], case["Y"], case["k"], case["space"], case["alpha"]
    n, m = X.shape
    ctx.cls("shape=" + case["shape"], "lowrank=%s" % case["lowrank"], "space=" + space, "mixing=%g" % case["mixing"])
    if pc.grey_zone(X):
        ctx.skip("grey-zone eigenvalue of X^T X")
        return
    reg = Ridge(alpha=a, fit_intercept=False, tol=1e-12)
    if case.get("prior_use"):
        # the same (unfitted) regressor object was passed to another PCovR on other data before: nothing may carry over
        with ctx.lib("prior-fit"):
            PCovR(mixing=0.5, n_components=1, space=space, regressor=reg).fit(X[::-1] * 1.0, np.roll(Y, 1, axis=0)[:, ::-1] * -1.0)
        ctx.true("unfitted-regressor-stays-unfitted", not hasattr(reg, "coef_"), "the caller's unfitted regressor was fitted in place")
        ctx.cls("prior_use")
    Yhat = X @ np.linalg.solve(X.T @ X + a * np.eye(m), X.T @ Y)
    nX2 = float((X ** 2).sum())

    # (i) mixing = 1 reproduces PCA -------------------------------------------------------------------------
    sx = np.linalg.svd(X, compute_uv=False) ** 2
    lam = np.r_[sx, np.zeros(max(0, k + 1 - len(sx)))]
    with ctx.lib("fit(mixing=1)"):
        p1 = PCovR(mixing=1 if case["cseed"] % 2 else 1.0, n_components=k, space=space, regressor=reg, svd_solver="full").fit(X, Y)     # (an int end point is a legal mixing)
        A = p1.transform(X)
        RA = p1.inverse_transform(A)
    pca = PCA(n_components=k, svd_solver="full").fit(X)
    B = pca.transform(X)
    RB = pca.inverse_transform(B)
    sub_gap = (lam[k - 1] - lam[k]) / lam[0]
    if sub_gap > 1e-6 and lam[k - 1] / lam[0] > 1e-8:
        ctx.close("pca-limit:reconstruction", RA, RB, (1e-7 / sub_gap) * max(1.0, np.abs(X).max()), "mixing=1 reconstruction vs PCA")
        ctx.count("pca_reconstruction_compared")
    else:
        ctx.skip("pca-limit: retained variance not separated")
    for j in range(k):
        up = (lam[j - 1] - lam[j]) / lam[0] if j > 0 else 1.0
        dn = (lam[j] - lam[j + 1]) / lam[0]
        g = min(up, dn)
        if g > 1e-6 and lam[j] / lam[0] > 1e-8:
            d = min(np.abs(A[:, j] - B[:, j]).max(), np.abs(A[:, j] + B[:, j]).max())
            if d > (1e-7 / g) * np.sqrt(lam[0]):
                ctx.fail("pca-limit:coordinates", "component %d differs from PCA beyond sign by %.3e (gap %.1e)" % (j, d, g))
            ctx.count("pca_components_compared")

    # (ii) mixing = 0 reproduces unregularised least squares ------------------------------------------------
    if pc.well_conditioned_tall(X):
        ref = X @ (np.linalg.pinv(X) @ Y)
        ry = int(np.linalg.matrix_rank(ref))
        kk = min(min(n, m), ry + case["klr_extra"])
        if kk >= ry:
            lr = LinearRegression(fit_intercept=False)
            with ctx.lib("fit(mixing=0,LR)"):
                p0 = PCovR(mixing=0 if case["cseed"] % 2 else 0.0, n_components=kk, space=space, regressor=lr, svd_solver="full").fit(X, Y)
                pr = np.asarray(p0.predict(X)).reshape(n, -1)
            ctx.close("regression-limit", pr, ref, 1e-6 * max(1.0, np.abs(Y).max()), "mixing=0 predictions vs X pinv(X) Y")
            ctx.count("regression_limit_compared")

    # (iii) optimality of the retained subspace for the mixed objective --------------------------------------
    mix = case["mixing"]
    w, U = pc.ktilde_eig(X, Yhat, mix)
    sc = w[0]
    with ctx.lib("fit(mixing)"):
        p = PCovR(mixing=mix, n_components=k, space=space, regressor=reg, svd_solver="full").fit(X, Y)
        T = p.transform(X)
    if sc > 0:
        Q = frame_of(T, sc)
        kk = Q.shape[1]
        lx, ly = losses(Q, X, Yhat)
        val = mix * lx + (1 - mix) * ly
        nrank = int((w / sc > 1e-8).sum())
        keff = min(k, nrank)
        best = float(np.trace(mix * X @ X.T + (1 - mix) * Yhat @ Yhat.T) - w[:keff].sum())
        scale = max(1.0, abs(best), nX2)
        ctx.true("optimal-value", val <= best + 1e-8 * scale,
                 "objective of the retained subspace %.10g exceeds the optimum %.10g (k=%d, retained %d)" % (val, best, k, kk))
        ctx.true("frame-size", kk <= k, "retained %d directions for k=%d" % (kk, k))
        rng = np.random.default_rng(case["cseed"])
        ncomp = 12 if ctx.tier == "quick" else 30
        comps = []
        if kk > 0:
            for _ in range(ncomp // 3 + 1):
                comps.append(np.linalg.qr(rng.normal(size=(n, kk)))[0])
            comps.append(np.linalg.svd(X, full_matrices=False)[0][:, :kk])
            comps.append(np.linalg.svd(np.hstack([Yhat, X]), full_matrices=False)[0][:, :kk])
            while len(comps) < ncomp:
                eps = [1e-1, 1e-2, 1e-3][len(comps) % 3]
                comps.append(np.linalg.qr(Q + eps * rng.normal(size=Q.shape))[0])
            if kk == keff:
                for C in comps:
                    cx, cy = losses(C, X, Yhat)
                    cv = mix * cx + (1 - mix) * cy
                    ctx.count("competitors")
                    if cv < val - 1e-8 * scale:
                        ctx.fail("competitor-better", "a competitor subspace has objective %.10g < %.10g of PCovR's (mixing %g, k %d)"
                                 % (cv, val, mix, k))
                        break
        if 0 < mix < 1 and k < nrank and lx > 1e-6 and ly > 1e-6:
            ctx.nontrivial = True

    # (iv) monotone trade-off along the mixing grid ------------------------------------------------------------
    lxs, lys = [], []
    shared = PCovR(mixing=0.5, n_components=k, space=space, regressor=reg, svd_solver="full") if case.get("reuse_estimator") else None
    if shared is not None:
        ctx.cls("grid_on_one_estimator")
    for mm in case["grid"]:
        with ctx.lib("fit(grid)"):
            if shared is not None:      # the natural loop: one estimator, set_params(mixing=...).fit(...)
                pg = shared.set_params(mixing=float(mm)).fit(X, Y)
            else:
                pg = PCovR(mixing=float(mm), n_components=k, space=space, regressor=reg, svd_solver="full").fit(X, Y)
            Tg = pg.transform(X)
        wg = pc.ktilde_eig(X, Yhat, mm)[0]
        Qg = frame_of(Tg, max(wg[0], 1e-300))
        a_, b_ = losses(Qg, X, Yhat)
        lxs.append(a_)
        lys.append(b_)
        # each point of the grid is itself optimal for its own mixing (Ky-Fan bound)
        if wg[0] > 0:
            nrk = int((wg / wg[0] > 1e-8).sum())
            bestg = float(mm * nX2 + (1 - mm) * float((Yhat ** 2).sum()) - wg[: min(k, nrk)].sum())
            valg = mm * a_ + (1 - mm) * b_
            ctx.true("optimal-value(grid)", valg <= bestg + 1e-8 * max(1.0, abs(bestg), nX2),
                     "mixing %g on the grid: objective %.10g exceeds the optimum %.10g" % (mm, valg, bestg))
    t = 1e-7 * max(1.0, nX2)
    dx, dy = np.diff(lxs), np.diff(lys)
    ctx.true("monotone:X-loss", bool(np.all(dx <= t)), "X reconstruction loss increases with mixing: %s at %s" % (np.round(lxs, 8).tolist(), case["grid"]))
    ctx.true("monotone:Y-loss", bool(np.all(dy >= -t)), "regression loss decreases with mixing: %s at %s" % (np.round(lys, 8).tolist(), case["grid"]))
    ctx.count("grid_points", len(case["grid"]))


def summarize(case):
    return {"shape": list(case["X"].shape), "targets": int(case["Y"].shape[1]), "lowrank": case["lowrank"], "k": case["k"],
            "space": case["space"], "alpha": case["alpha"], "mixing": case["mixing"], "grid": case["grid"],
            "X_first_row": np.round(case["X"][0], 4).tolist()}

"""C17 - SparseKDE is a well-formed mixture consistent with its Voronoi assignment."""

import numpy as np
from hypothesis import strategies as st
from hypothesis.extra import numpy as hnp
from scipy.special import logsumexp

from skmatter.neighbors import SparseKDE
from skmatter.neighbors import _sparsekde as MOD
from vf import gen
from vf.core import Ctx, StopCheck

ID = "C17"
TITLE = "SparseKDE is a well-formed mixture consistent with its Voronoi assignment"
TECHNIQUE = ("Hypothesis PBT against an independent re-implementation of the documented mixture and a brute-force nearest-grid "
             "assignment; metamorphic relations (translation, consistent permutation, periodic image shifts) with a conditioning-aware "
             "tolerance recorded by a harness-side wrapper; known finding attributed by differential re-execution with a reference covariance")
LEVEL = ("Generated-input exploration over multi-modal / anisotropic / degenerate descriptor clouds, weights, grids (subsets, FPS-selected, "
         "arbitrary points incl. empty cells), fpoints / fspread settings and periodic cells: assignment and grid weights against brute "
         "force, every bandwidth finite / symmetric / positive definite whenever the localisation reaches another grid point, "
         "score_samples against the re-implemented mixture, score = sum, and the stated invariances of the log-densities. "
         "No absence claim: strength = the counted distinct non-trivial cases in the evidence.")
LIFECYCLE = False   # vf/lifecycle.py: an extra SparseKDE fit on the perturbed grid / weights can run into the watchdog (11 of 4000 cases, 20 s each); left off here
BUDGET = {"quick": 250, "thorough": 2500}
WATCHDOG = {"quick": 20, "thorough": 60}
RULE = ("Cases: 20..80 descriptors (thorough 250) in 1..4 dimensions from 1..3 anisotropic clusters, 15% with a coordinate that is a "
        "multiple of another (degenerate), 15% binned onto a half-integer lattice with grid points on distinct lattice sites (exact ties, repeated descriptors), weights None / positive / positive with exact zeros, grids of 2..sqrt(n)+2 points (random subset, farthest-point subset or "
        "arbitrary points), fpoints in (0.1,0.8) or fspread in 10^(-3,0), optional cell (1.2..3 x extent, or all sides 2 pi), 4 queries "
        "near the data, 2 far away and 2 sharing all but one coordinate with a descriptor; refit of the same object on a second grid; translations, permutations of descriptors and grid points, integer image shifts -2..2 of "
        "descriptors, queries and (in half of the periodic cases) grid points.  Precondition by construction/classification: "
        "max(fpoints, largest grid weight + 1/n) <= 0.9 (fit does not terminate otherwise, DESIGN 3.4).  Non-trivial: >= 2 grid points "
        "with members and both the far (grid-level) and the near (descriptor-level) branch taken by some query; distinct = SHA-1 of the case.")
ASSUMPTIONS = [
    "assignment and grid weights are observed through the private attributes _sample_labels_ / _sample_weights (no public accessor exists)",
    "invariance tolerance = 1e-10 x the largest recorded amplification 1/(1 - sum (w/sum w)^2) of a local covariance (skipped above 1e6): "
    "the covariance divides by that quantity, which cancels catastrophically when the localisation barely reaches another grid point",
    "a fit that raises LinAlgError while a recorded localisation denominator is < 1e-12 falls under the proviso 'reaches another grid point'",
    "queries whose Mahalanobis distance to a grid point is within 1e-6 (relative) of the far/near cut are skipped",
]

TWO_PI = 2 * np.pi


def sqd(A, B, cell):
    d = A[:, None, :] - B[None, :, :]
    if cell is not None:
        d = d - np.round(d / cell) * cell
    return d


def ref_covariance(X, sw, cell):
    """Weighted covariance with the correct circular mean (used only to attribute known finding K3)."""
    totw = np.sum(sw)
    if cell is None:
        xm = np.average(X, axis=0, weights=sw / totw)
    else:
        ang = X * TWO_PI / cell
        xm = np.arctan2(np.average(np.sin(ang), axis=0, weights=sw / totw),
                        np.average(np.cos(ang), axis=0, weights=sw / totw)) * cell / TWO_PI
    xxm = X - xm
    if cell is not None:
        xxm = xxm - np.round(xxm / cell) * cell
    c = (xxm * sw.reshape(-1, 1) / totw).T.dot(xxm)
    c /= 1 - np.sum((sw / totw) ** 2)
    return c


@st.composite
def strategy_(draw, tier):
    D = draw(st.integers(1, 4))
    nc = draw(st.integers(1, 3))
    n = draw(st.integers(20, 250 if tier == "thorough" else 80))
    rng = gen.rng_of(draw)
    cen = rng.normal(size=(nc, D)) * 4
    A = [rng.normal(size=(D, D)) * rng.uniform(0.2, 1) for _ in range(nc)]
    z = rng.integers(0, nc, n)
    desc = np.array([cen[k] + A[k] @ rng.normal(size=D) for k in z])
    degenerate = D > 1 and draw(st.integers(0, 99)) < 20
    if degenerate:
        if draw(st.booleans()):
            desc[:, -1] = desc[:, 0] * 0.5
        else:
            desc[:, -1] = 0.5            # cloud confined to a coordinate plane
    lattice = draw(st.integers(0, 99)) < 15
    if lattice:
        # binned descriptors: half-integer lattice sites (exact arithmetic), so that descriptors are exactly equidistant from
        # two grid points; repeated descriptors occur
        msite = max(4, int(np.ceil((2.0 * n) ** (1.0 / D))))
        desc = rng.integers(0, msite, size=(n, D)) * 0.5
        degenerate = False
    w = None if draw(st.booleans()) else rng.uniform(0.2, 2, size=n)
    if w is not None and draw(st.integers(0, 2)) == 0:
        w[rng.random(n) < 0.2] = 0.0          # masked descriptors: weight exactly zero
        if not (w > 0).sum() >= 2:
            w[:2] = 1.0
    ng = draw(st.integers(2, max(3, int(np.sqrt(n)) + 2)))
    gkind = draw(st.sampled_from(["subset", "subset", "fps", "arbitrary"]))
    if lattice:
        sites = np.unique(desc, axis=0)
        ng = min(ng, len(sites))
        gkind = "lattice"
        grid = sites[rng.choice(len(sites), ng, replace=False)].copy()       # pairwise distinct grid points
    elif gkind == "subset":
        grid = desc[rng.choice(n, ng, replace=False)].copy()
    elif gkind == "fps":
        idx = [int(rng.integers(0, n))]
        dmin = ((desc - desc[idx[0]]) ** 2).sum(1)
        for _ in range(ng - 1):
            j = int(np.argmax(dmin))
            idx.append(j)
            dmin = np.minimum(dmin, ((desc - desc[j]) ** 2).sum(1))
        grid = desc[idx].copy()
    else:
        grid = desc[rng.choice(n, ng, replace=False)] + rng.normal(size=(ng, D)) * 0.5
    ck = draw(st.sampled_from(["none", "none", "box", "2pi"]))
    if ck == "none":
        cell = None
    elif ck == "box":
        cell = np.ptp(desc, axis=0) * rng.uniform(1.2, 3) + 1e-3
    else:
        # (binned descriptors: a factor for which no lattice distance is exactly half a cell side, where the minimum image is two-valued)
        sc = np.ptp(desc, axis=0).max() * (1.37 if lattice else 1.5) / TWO_PI
        desc, grid = desc / sc, grid / sc
        cell = np.full(D, TWO_PI)
    mode = draw(st.sampled_from(["fpoints", "fspread"]))
    val = float(rng.uniform(0.1, 0.8)) if mode == "fpoints" else float(10.0 ** rng.uniform(-3, 0))
    Q = np.vstack([rng.normal(size=(4, D)) * 0.7 * desc.std() + desc[rng.integers(0, n, 4)],
                   rng.normal(size=(2, D)) * 8 * desc.std() + desc.mean(0)])
    # two queries that share all but one coordinate with a descriptor (they are not descriptors)
    for _ in range(2):
        q = desc[rng.integers(0, n)].copy()
        q[rng.integers(0, D)] += 0.3 * desc.std() * (1 + rng.random())
        Q = np.vstack([Q, q])
    return {"desc": desc, "w": w, "grid": grid, "gkind": gkind, "cell": cell, "cellkind": ck, "mode": mode, "val": val, "Q": Q,
            "degenerate": degenerate, "shift": rng.normal(size=D) * 5,
            "shd": rng.integers(-2, 3, size=(n, D)), "shg": rng.integers(-2, 3, size=(ng, D)), "shq": rng.integers(-2, 3, size=(len(Q), D)),
            "grid2": (np.unique(desc, axis=0)[rng.choice(len(np.unique(desc, axis=0)), ng, replace=False)] if lattice
                      else desc[rng.choice(n, ng, replace=False)]).copy(),
            "shift_grid": draw(st.booleans()), "perm": rng.permutation(n), "permg": rng.permutation(ng)}


def strategy(tier):
    return strategy_(tier)


class CovRecorder:
    """Harness-side wrapper of the module-level _covariance: records the denominator 1 - sum (w/sum w)^2 of every call;
    optionally substitutes the reference covariance (differential re-execution for K3)."""

    def __init__(self, substitute=False):
        self.den = []
        self.substitute = substitute
        self.orig = getattr(MOD, "_covariance", None)     # private helper: without it nothing is recorded (fewer claims, no alarm)

    def __enter__(self):
        if self.orig is None:
            return self

        def wrapped(X, sw, cell):
            t = np.sum(sw)
            self.den.append(float(1 - np.sum((sw / t) ** 2)))
            if self.substitute:
                return ref_covariance(X, sw, cell)
            return self.orig(X, sw, cell)
        MOD._covariance = wrapped
        return self

    def __exit__(self, *a):
        if self.orig is not None:
            MOD._covariance = self.orig


def model_reach(case, grid, gw, cell):
    """Reference model of the documented fspread localisation: sigma^2 = fspread^2 x trace of the weighted grid covariance (sum of the
    squared cell sides with a cell), replaced by the squared distance to the nearest other grid point when it is smaller than
    the local population.  Returns per grid point 1 - sum (u/sum u)^2 of the localisation weights u (0 = the localisation
    reaches no other grid point), or None where the branch taken is decided by rounding."""
    ng = len(grid)
    if cell is None:
        tot = gw.sum()
        xm = (gw[:, None] * grid).sum(0) / tot
        tune = float(((gw / tot)[:, None] * (grid - xm) ** 2).sum() / (1 - np.sum((gw / tot) ** 2)))
    else:
        tune = float(np.sum(np.asarray(cell) ** 2))
    d2 = (sqd(grid, grid, cell) ** 2).sum(-1)
    out = []
    for i in range(ng):
        s2 = tune * case["val"] ** 2
        with np.errstate(all="ignore"):
            u = gw * np.exp(-0.5 * d2[i] / s2)
            fl = float(u.sum())
            if abs(s2 - fl) <= 1e-9 * max(s2, fl):
                out.append(None)
                continue
            if s2 < fl:
                other = np.delete(d2[i], i)
                u = gw * np.exp(-0.5 * d2[i] / other.min())
            t = u.sum()
            out.append(float(1 - np.sum((u / t) ** 2)) if t > 0 and np.isfinite(t) else 0.0)
    return out


def make(case, desc, w, grid, rec):
    kw = {"fpoints": case["val"]} if case["mode"] == "fpoints" else {"fspread": case["val"]}
    cell = case["cell"]
    kde = SparseKDE(desc.copy(), None if w is None else w.copy(),
                    metric_params=None if cell is None else {"cell_length": cell.copy()}, **kw)
    kde.fit(grid.copy())
    return kde


def ref_score(kde, desc, ww, grid, Q, cell, labels, gw, ctx):
    D = desc.shape[1]
    cut = (3 * (np.sqrt(D) + 1)) ** 2
    H = np.asarray(kde.bandwidth_)
    Hi = np.array([np.linalg.inv(x) for x in H])
    ln = np.array([D * np.log(2 * np.pi) + np.linalg.slogdet(x)[1] for x in H])
    out, used = [], []
    far = near = 0
    for q in Q:
        terms = []
        ok = True
        for j in range(len(grid)):
            dq = sqd(q[None], grid[j][None], cell)[0, 0]
            m2 = dq @ Hi[j] @ dq
            if abs(m2 - cut) <= 1e-6 * cut:
                ok = False
                break
            if m2 > cut:
                if gw[j] > 0:
                    terms.append(-0.5 * (ln[j] + m2) + np.log(gw[j]))
                else:
                    terms.append(-np.inf)
                far += 1
            else:
                mem = [i for i in range(len(desc)) if labels[i] == j and np.any(desc[i] != q)]
                near += 1
                for i in mem:
                    dd = sqd(desc[i][None], q[None], cell)[0, 0]
                    terms.append(-0.5 * (ln[j] + dd @ Hi[j] @ dd) + np.log(ww[i]))
        used.append(ok)
        with np.errstate(divide="ignore"):
            out.append(logsumexp(terms) if terms else -np.inf)
    return np.array(out) - np.log(gw.sum()), np.array(used), far, near


def evaluate(case, ctx, substitute=False, only=None):
    """Runs the whole check; with substitute=True the library uses the reference covariance."""
    desc, w, grid, cell, Q = case["desc"], case["w"], case["grid"], case["cell"], case["Q"]
    n, D = desc.shape
    ng = len(grid)
    ww = np.ones(n) / n if w is None else w / w.sum()
    dm = (sqd(desc, grid, cell) ** 2).sum(-1)
    lab = dm.argmin(1)
    gw = np.array([ww[lab == j].sum() for j in range(ng)])
    if case["mode"] == "fpoints" and max(case["val"], gw.max() + 1.0 / n) > 0.9:
        ctx.skip("outside the domain: fit does not terminate (fpoints / largest cell weight + 1/n > 0.9)")
        return
    srt = np.sort(dm, axis=1)
    clear = (srt[:, 1] - srt[:, 0]) > 1e-9 * max(1.0, float(dm.max())) if ng > 1 else np.ones(n, bool)
    with CovRecorder(substitute) as rec:
        try:
            kde = make(case, desc, w, grid, rec)
        except np.linalg.LinAlgError as e:
            if case["mode"] == "fspread" and not substitute and clear.all() and all(d is not None and d > 1e-6 for d in model_reach(case, grid, gw, cell)):
                ctx.fail("exception:fit", "LinAlgError although, by the documented fspread rule, every localisation reaches another grid "
                         "point with a sizeable weight: %s" % str(e)[:120])
                return
            if any((not np.isfinite(d)) or d < 1e-12 for d in rec.den):
                ctx.skip("proviso: the localisation of a grid point reaches no other grid point (fit raised LinAlgError)")
                return
            ctx.fail("exception:fit", "LinAlgError although every localisation reaches another grid point: %s" % str(e)[:120])
            return
        except Exception as e:  # noqa: BLE001
            from vf.core import innermost_frame
            ctx.fail("exception:fit", "%s: %s @ %s" % (type(e).__name__, str(e)[:160], innermost_frame(e)))
            return
    den = rec.den[1:]
    # ---- assignment and grid weights ------------------------------------------------------------------------
    labels = np.asarray(kde._sample_labels_)
    if only is None:
        ctx.true("assignment==nearest-grid", bool(np.all(labels[clear] == lab[clear])), "a descriptor is not assigned to its nearest grid point")
        if clear.all():
            ctx.close("grid-weights==sums", np.asarray(kde._sample_weights), gw, 1e-12, "grid weights vs sums of assigned descriptor weights")
        ctx.close("grid-weights-total", float(np.sum(kde._sample_weights)), 1.0, 1e-12, "total grid weight")
    lab = labels            # judge the mixture w.r.t. the assignment actually made (ties)
    gw = np.array([ww[lab == j].sum() for j in range(ng)])
    # ---- bandwidths -----------------------------------------------------------------------------------------
    H = np.asarray(kde.bandwidth_)
    pd = True
    mden = model_reach(case, grid, gw, cell) if (case["mode"] == "fspread" and clear.all()) else [None] * ng
    for j in range(ng):
        reaches = (j < len(den) and den[j] > 1e-12) or (mden[j] is not None and mden[j] > 1e-6)
        Hj = H[j]
        good = bool(np.all(np.isfinite(Hj))) and float(np.abs(Hj - Hj.T).max()) <= 1e-12 * max(float(np.abs(Hj).max()), 1e-300) \
            and float(np.linalg.eigvalsh((Hj + Hj.T) / 2).min()) > 0
        if not good:
            pd = False
            if reaches and only is None:
                ev = np.linalg.eigvalsh((Hj + Hj.T) / 2) if np.all(np.isfinite(Hj)) else [np.nan]
                ctx.fail("bandwidth-not-positive-definite", "grid point %d: bandwidth finite=%s, smallest eigenvalue %.3e, localisation denominator %.3e"
                         % (j, bool(np.all(np.isfinite(Hj))), float(np.min(ev)), den[j]))
    if not pd:
        if not ctx.problems:
            ctx.skip("proviso: a localisation reaches no other grid point (bandwidth not defined)")
        return
    amp = max([1.0] + [1.0 / d if d > 0 else np.inf for d in den])
    if not amp < 1e6:
        ctx.skip("ill-conditioned localisation (amplification > 1e6)")
        return
    itol = 1e-10 * amp
    # ---- mixture formula -------------------------------------------------------------------------------------
    try:
        s = np.asarray(kde.score_samples(Q))
        tot = kde.score(Q)
    except Exception as e:  # noqa: BLE001
        from vf.core import innermost_frame
        ctx.fail("exception:score_samples", "%s: %s @ %s" % (type(e).__name__, str(e)[:160], innermost_frame(e)))
        return
    if only is None and len(Q) >= 2:
        try:
            parts = np.r_[np.asarray(kde.score_samples(Q[:1])), np.asarray(kde.score_samples(Q[1:]))]
            same = np.array_equal(np.isfinite(parts), np.isfinite(s))
            ctx.true("row-independence", same and bool(np.all(np.abs(parts[np.isfinite(s)] - s[np.isfinite(s)]) <= 1e-12 * max(1.0, float(np.abs(s[np.isfinite(s)]).max()) if np.isfinite(s).any() else 1.0))),
                     "a query scored alone differs from the same query scored in a batch")
        except Exception as e:  # noqa: BLE001
            ctx.fail("exception:score_samples(single row)", "%s: %s" % (type(e).__name__, str(e)[:160]))
    r, used, far, near = ref_score(kde, desc, ww, grid, Q, cell, lab, gw, ctx)
    fin = used & np.isfinite(r)
    sscale = max(1.0, float(np.abs(r[fin]).max())) if fin.any() else 1.0
    if only is None:
        ctx.true("score_samples-shape", s.shape == (len(Q),), "shape %s" % (s.shape,))
        if fin.any():
            ctx.close("score_samples==mixture", s[fin], r[fin], 1e-8 * sscale, "log-density vs re-implemented mixture")
        neg_inf = used & ~np.isfinite(r)
        if neg_inf.any():
            ctx.true("score_samples(-inf)", bool(np.all(np.isneginf(s[neg_inf]))), "expected -inf log density")
        if np.all(np.isfinite(s)):
            ctx.close("score==sum", tot, float(s.sum()), 1e-9 * max(1.0, abs(float(s.sum()))), "score vs sum of score_samples")
        ctx.count("queries_far_terms", far)
        ctx.count("queries_near_terms", near)
        if (gw > 0).sum() >= 2 and far > 0 and near > 0:
            ctx.nontrivial = True
    # ---- refit of the same object on another grid == fresh estimator on that grid ----------------------------
    refit_ok = only is None and "grid2" in case
    if refit_ok and case["mode"] == "fpoints":
        lab2 = (sqd(desc, case["grid2"], cell) ** 2).sum(-1).argmin(1)
        gw2 = np.array([ww[lab2 == j].sum() for j in range(len(case["grid2"]))])
        refit_ok = max(case["val"], gw2.max() + 1.0 / n) <= 0.9          # same termination precondition as for the first grid
    if refit_ok:
        try:
            with CovRecorder(substitute):
                kde.fit(case["grid2"].copy())
                s_re = np.asarray(kde.score_samples(Q))
                s_fr = np.asarray(make(case, desc, w, case["grid2"], None).score_samples(Q))
            both = np.isfinite(s_re) & np.isfinite(s_fr)
            if not np.array_equal(np.isfinite(s_re), np.isfinite(s_fr)):
                ctx.fail("refit==fresh", "finite pattern differs after refitting on another grid")
            elif both.any():
                ctx.close("refit==fresh", s_re[both], s_fr[both], 1e-9 * max(1.0, float(np.abs(s_fr[both]).max())),
                          "score_samples after fit(A), score, fit(B) vs a fresh estimator fitted on B")
            ctx.count("refits_checked")
        except np.linalg.LinAlgError:
            ctx.skip("refit grid: proviso (LinAlgError)")
    # ---- invariances --------------------------------------------------------------------------------------
    if not clear.all():
        # a descriptor exactly (or within rounding) equidistant from two grid points may go to either; which one depends on the
        # rounding of the transformed coordinates and on the order of the grid points, and so do the log-densities
        ctx.skip("invariances: tied nearest grid points")
        ctx.count("cases_with_tied_assignment")
        return
    fs = np.isfinite(s)

    def refit_scores(desc2, w2, grid2, Q2, what):
        with CovRecorder(substitute) as rec2:
            try:
                k2 = make(case, desc2, w2, grid2, rec2)
                s2 = np.asarray(k2.score_samples(Q2))
            except np.linalg.LinAlgError:
                return None, None
        amp2 = max([1.0] + [1.0 / d if d > 0 else np.inf for d in rec2.den[1:]])
        return s2, amp2

    def geom_cond(g):
        """The estimator measures grid-grid distances with the dot-product formula |a|^2 + |b|^2 - 2ab: its relative error is
        eps x |coordinates|^2 / d^2, which matters when two grid points nearly coincide far from the origin."""
        dg = (sqd(g, g, cell) ** 2).sum(-1)
        pos = dg[dg > 0]
        if pos.size == 0:
            return np.inf
        return float((np.abs(g).max() ** 2 + 1e-300) / pos.min())

    def compare(sub, s2, amp2, tolfac, cond=1.0):
        if s2 is None or not amp2 < 1e6:
            ctx.skip(sub + ": variant ill-conditioned")
            return
        if cond > 1e10:
            ctx.skip(sub + ": nearly coincident grid points far from the origin (distance formula ill-conditioned)")
            return
        t = max(tolfac, 1e-10 * max(amp, amp2), 1e-14 * cond) * sscale
        both = fs & np.isfinite(s2)
        if not np.array_equal(fs, np.isfinite(s2)):
            ctx.fail(sub, "finite / infinite pattern of the log-densities changed")
        elif both.any():
            d = float(np.abs(s2[both] - s[both]).max())
            if d > t:
                ctx.fail(sub, "log-densities change by %.3e (tolerance %.1e, amplification %.1e)" % (d, t, max(amp, amp2)))

    del itol
    if cell is None:
        if only is None:
            sh = case["shift"]
            s2, a2 = refit_scores(desc + sh, w, grid + sh, Q + sh, "translation")
            compare("invariance:translation", s2, a2, 1e-8, max(geom_cond(grid), geom_cond(grid + sh)))
    else:
        if only is None:
            s2, a2 = refit_scores(desc + case["shd"] * cell, w, grid, Q + case["shq"] * cell, "descriptor/query image shift")
            compare("invariance:descriptor-and-query-image-shift", s2, a2, 1e-7, geom_cond(grid))
        if case["shift_grid"]:
            s2, a2 = refit_scores(desc, w, grid + case["shg"] * cell, Q, "grid image shift")
            compare("invariance:grid-image-shift", s2, a2, 1e-7, max(geom_cond(grid), geom_cond(grid + case["shg"] * cell)))
    if only is None:
        p, pg = np.asarray(case["perm"]), np.asarray(case["permg"])
        s2, a2 = refit_scores(desc[p], None if w is None else w[p], grid[pg], Q, "permutation")
        compare("invariance:permutation", s2, a2, 1e-9, geom_cond(grid))


def check(case, ctx):
    ctx.cls("D=%d" % case["desc"].shape[1], "grid=" + case["gkind"], "cell=" + case["cellkind"], "mode=" + case["mode"],
            "weights=%s" % (case["w"] is not None), "degenerate=%s" % case["degenerate"])
    evaluate(case, ctx)


def known_filter(case, problems, active):
    """K3: image shift of grid points with a cell side != 2 pi.  Attributed only if the same case passes
    when the library's _covariance is replaced by the reference covariance (differential re-execution)."""
    if "K3" not in active or case["cell"] is None or np.allclose(case["cell"], TWO_PI):
        return problems, []
    subs = {p["sub"] for p in problems}
    if subs != {"invariance:grid-image-shift"}:
        return problems, []
    c2 = Ctx()
    try:
        evaluate(case, c2, substitute=True, only="grid")
    except StopCheck:
        pass
    if any(p["sub"] == "invariance:grid-image-shift" for p in c2.problems):
        return problems, []
    return [], ["K3"]


def summarize(case):
    return {"n": int(case["desc"].shape[0]), "D": int(case["desc"].shape[1]), "n_grid": int(len(case["grid"])), "grid": case["gkind"],
            "cell": None if case["cell"] is None else np.round(case["cell"], 4).tolist(), "mode": case["mode"], "value": case["val"],
            "weights": case["w"] is not None, "degenerate": case["degenerate"], "shift_grid": case["shift_grid"],
            "desc_first": np.round(case["desc"][0], 4).tolist()}

"""C09 - calls never modify caller data or hyper-parameters; refits start from scratch."""

import inspect

import numpy as np
from hypothesis import strategies as st
from sklearn.kernel_ridge import KernelRidge
from sklearn.linear_model import Ridge

from skmatter import feature_selection as FS
from skmatter import metrics as M
from skmatter import sample_selection as SS
from skmatter import utils as U
from skmatter.clustering import QuickShift
from skmatter.decomposition import KernelPCovR, PCovR
from skmatter.linear_model import OrthogonalRegression, Ridge2FoldCV
from skmatter.model_selection import train_test_split
from skmatter.neighbors import SparseKDE
from skmatter.preprocessing import KernelNormalizer as KN
from skmatter.preprocessing import SparseKernelCenterer as SKC
from skmatter.preprocessing import StandardFlexibleScaler as SFS
from vf import gen

ID = "C09"
TITLE = "Calls never modify caller data or hyper-parameters; refits start from scratch"
TECHNIQUE = ("Hypothesis PBT over a table of every public entry point x argument layouts (C / F order, strided view, read-only): byte-wise "
             "snapshots before/after, hyper-parameter snapshots around fit; model-based refit histories (model = fresh estimator fitted "
             "on the last data, also after a hyper-parameter was changed between two fits) and repeated-call comparison")
LEVEL = ("Generated-input exploration: every enumerated public constructor / fit / transform / predict / score / metric function is "
         "called with each array argument in a drawn memory layout and compared byte-wise afterwards; constructor hyper-parameters are "
         "compared around fit; generated two- and three-step fit histories must leave exactly the public state of a fresh estimator fitted "
         "on the last data (attributes AND behaviour: transform / predict / score outputs of the refitted vs the fresh estimator, with estimator-valued "
         "arguments shared across the history; also with one hyper-parameter changed by set_params / assignment between two fits, against an "
         "estimator constructed with the new value); query methods are read-only (fitted state byte-identical before/after, repeated queries equal); "
         "repeated calls must agree. No absence claim: strength = the counted distinct executed (entry, layout, data) cases.")
BUDGET = {"quick": 260, "thorough": 12000}
WATCHDOG = {"quick": 60, "thorough": 120}
RULE = ("Four generated case families: 'purity' = (entry point from the table of %d, data seed, one memory layout per array argument, "
        "float64 / float32 / int dtype of the main matrix); 'refit' = (estimator from the table of %d, history of 2..3 fits on drawn data "
        "sets of different sizes, with / without targets or weights where optional); 'repeat' = the same fitted call executed twice; 'reparam' = (estimator, one hyper-parameter and its new value from a table, set_params or "
        "attribute assignment): fit, change the hyper-parameter, fit again, compared (fitted state the new configuration defines, and probe "
        "outputs) with an estimator constructed with the new value and fitted once.  "
        "Non-trivial: the call executed without an argument-validation error (purity), respectively every fit of the history succeeded; "
        "distinct = SHA-1 of the canonical case.")
ASSUMPTIONS = [
    "estimator-valued arguments documented to be fitted in place (scaler, estimator, linear_estimator) are not judged; a pre-fitted regressor must keep its fitted attributes",
    "fitted state = public attributes ending in '_' (arrays compared with tolerance 1e-9 x magnitude: ARPACK start vectors differ between fits); "
    "attributes holding foreign objects (scipy ConvexHull, interpolators) are compared by type only",
    "an exception mentioning 'read-only' on a read-only argument counts as a mutation only if the same call mutates a writable copy",
    "after a hyper-parameter change, attributes that only the old configuration defines may linger (the property speaks of refits on other data)",
    "entry points present at the pinned commit are enumerated in this module; a new entry point is not covered until added to the table",
]

LAYOUTS = ["C", "F", "view", "ro"]


# ----------------------------------------------------------------------------
# helpers
# ----------------------------------------------------------------------------
def relayout(a, lay):
    a = np.asarray(a)
    if lay == "F" and a.ndim == 2:
        return np.asfortranarray(a).copy(order="F")
    if lay == "view" and a.ndim >= 1:
        shape = tuple(2 * s for s in a.shape)
        big = np.zeros(shape, dtype=a.dtype)
        v = big[tuple(slice(None, None, 2) for _ in a.shape)]
        v[...] = a
        return v
    if lay == "ro":
        r = np.array(a, copy=True)
        r.setflags(write=False)
        return r
    return np.ascontiguousarray(a).copy()


def snap(v):
    if isinstance(v, np.ndarray):
        return ("nd", v.tobytes(), v.shape, str(v.dtype), v.strides)
    if isinstance(v, (list, tuple)):
        return ("seq", tuple(snap(x) for x in v))
    if isinstance(v, dict):
        return ("dict", tuple((k, snap(x)) for k, x in sorted(v.items())))
    return ("other", repr(v))


def ctor_params(est):
    if hasattr(est, "get_params"):
        try:
            return dict(est.get_params(deep=False))
        except Exception:  # noqa: BLE001
            pass
    names = [p for p in inspect.signature(type(est).__init__).parameters if p != "self"]
    return {n: getattr(est, n) for n in names if hasattr(est, n)}


def params_snapshot(est):
    return {k: snap(v) if isinstance(v, (np.ndarray, list, tuple, dict)) else ("other", repr(v)) for k, v in ctor_params(est).items()}


def checked_fit(ctx, est, *a, **kw):
    """fit() returns the estimator itself and leaves the constructor hyper-parameters alone."""
    before = params_snapshot(est)
    r = est.fit(*a, **kw)
    ctx.true("fit-returns-self", r is est, "%s.fit returned %s" % (type(est).__name__, type(r).__name__))
    after = params_snapshot(est)
    changed = sorted(k for k in before if before[k] != after.get(k))
    if changed:
        if type(est).__name__ == "VoronoiFPS" and changed == ["full_fraction"] and before["full_fraction"] == ("other", "None"):
            ctx.fail("K2:full_fraction", "VoronoiFPS.fit stored the calibrated switching point in the constructor parameter full_fraction (was None)")
        else:
            ctx.fail("hyper-parameter-changed", "%s.fit changed constructor parameter(s) %s" % (type(est).__name__, changed))
    return est


def state_snapshot(est):
    """Byte-wise snapshot of every attribute of a fitted estimator (arrays, lists of arrays, nested skmatter/sklearn estimators)."""
    out = {}
    for k, v in sorted(vars(est).items()):
        if isinstance(v, (np.ndarray, list, tuple, dict)):
            out[k] = snap(v)
        elif isinstance(v, (int, float, str, bool, type(None), np.generic)):
            out[k] = ("other", repr(v))
        elif hasattr(v, "__dict__") and type(v).__module__.split(".")[0] in ("skmatter", "sklearn"):
            out[k] = ("est", tuple(sorted((kk, snap(vv) if isinstance(vv, (np.ndarray, list, tuple, dict)) else repr(type(vv)))
                                          for kk, vv in vars(v).items())))
    return out


def queries_pure(ctx, est, calls):
    """Query methods are read-only: calling them leaves the fitted state untouched and repeating them gives the same answers."""
    s0 = state_snapshot(est)
    r1 = [(n, snap(np.asarray(f()))) for n, f in calls]
    s1 = state_snapshot(est)
    changed = sorted(k for k in s0 if s0[k] != s1.get(k)) + sorted(k for k in s1 if k not in s0)
    # lazily filled private caches are allowed to appear; fitted (public) attributes and anything that existed must not change
    changed = [k for k in changed if not (k.startswith("_") and k not in s0) and not (k.startswith("_") and s0.get(k) == ("other", "None"))]
    if changed:
        ctx.fail("query-changed-fitted-state", "%s: calling %s changed attribute(s) %s" % (type(est).__name__, [n for n, _ in calls], changed))
    r2 = [(n, snap(np.asarray(f()))) for n, f in calls]
    diff = [n for (n, a), (_, b) in zip(r1, r2) if a != b]
    if diff:
        ctx.fail("query-not-repeatable", "%s: %s return different results when called a second time" % (type(est).__name__, diff))


def public_state(est):
    return {k: v for k, v in vars(est).items() if k.endswith("_") and not k.startswith("_")}


def compare_state(ctx, sub, a, b, path=""):
    """a = reference (fresh), b = object under test."""
    if isinstance(a, np.ndarray) or isinstance(b, np.ndarray):
        a_, b_ = np.asarray(a), np.asarray(b)
        if a_.shape != b_.shape:
            ctx.fail(sub, "%s: shape %s vs fresh %s" % (path, b_.shape, a_.shape))
        elif a_.dtype.kind in "fc" or b_.dtype.kind in "fc":
            fin = np.isfinite(a_.astype(float))
            sc = float(np.abs(a_[fin]).max()) if fin.any() else 1.0
            ctx.close(sub, b_.astype(float), a_.astype(float), 1e-9 * max(sc, 1e-300) + 1e-300, path)
        elif not np.array_equal(a_, b_):
            ctx.fail(sub, "%s: %s vs fresh %s" % (path, b_.tolist()[:12], a_.tolist()[:12]))
    elif isinstance(a, (bool, int, str, type(None))) and not isinstance(a, float):
        if a != b:
            ctx.fail(sub, "%s: %r vs fresh %r" % (path, b, a))
    elif isinstance(a, (float, np.floating)):
        if not (abs(float(a) - float(b)) <= 1e-9 * max(1.0, abs(float(a))) or (np.isnan(a) and np.isnan(b))):
            ctx.fail(sub, "%s: %r vs fresh %r" % (path, b, a))
    elif isinstance(a, (list, tuple)):
        if not isinstance(b, (list, tuple)) or len(a) != len(b):
            ctx.fail(sub, "%s: sequence length differs" % path)
        else:
            for i, (x, y) in enumerate(zip(a, b)):
                compare_state(ctx, sub, x, y, "%s[%d]" % (path, i))
    elif isinstance(a, dict):
        if not isinstance(b, dict) or set(a) != set(b):
            ctx.fail(sub, "%s: dict keys differ" % path)
        else:
            for k in a:
                compare_state(ctx, sub, a[k], b[k], "%s[%r]" % (path, k))
    elif hasattr(a, "get_params") or type(a).__module__.startswith("skmatter"):
        sa, sb = public_state(a), public_state(b)
        if set(sa) != set(sb):
            ctx.fail(sub, "%s: fitted attributes %s vs fresh %s" % (path, sorted(sb), sorted(sa)))
        else:
            for k in sa:
                compare_state(ctx, sub, sa[k], sb[k], path + "." + k)
    else:
        if type(a) is not type(b):
            ctx.fail(sub, "%s: type %s vs fresh %s" % (path, type(b).__name__, type(a).__name__))


def compare_estimators(ctx, sub, fresh, est, allow_leftovers=False):
    sa, sb = public_state(fresh), public_state(est)
    if allow_leftovers:
        # (after a hyper-parameter change an attribute that only the old configuration defines may linger: the property speaks
        # of refits on other data, so only what the new configuration defines is compared)
        sb = {k: v for k, v in sb.items() if k in sa}
    if set(sa) != set(sb):
        ctx.fail(sub + ":attributes", "fitted attributes differ from a fresh fit: extra %s, missing %s"
                 % (sorted(set(sb) - set(sa)), sorted(set(sa) - set(sb))))
        return
    for k in sorted(sa):
        compare_state(ctx, sub + ":" + k, sa[k], sb[k], k)


# ----------------------------------------------------------------------------
# data
# ----------------------------------------------------------------------------
def data(seed, n=None, m=None):
    rng = np.random.default_rng(seed)
    n = n or int(rng.integers(10, 16))
    m = m or int(rng.integers(4, 7))
    X = rng.normal(size=(n, m))
    X -= X.mean(0)
    Y = X @ rng.normal(size=(m, 2)) + 0.3 * rng.normal(size=(n, 2))
    Y -= Y.mean(0)
    return {"rng": rng, "n": n, "m": m, "X": X, "Y": Y, "y": Y[:, 0].copy(), "w": rng.uniform(0.5, 2, size=n)}


# ----------------------------------------------------------------------------
# purity table: name -> (build(d) -> args dict, call(ctx, **args))
# ----------------------------------------------------------------------------
ENTRIES = {}


def entry(name):
    def deco(pair_fn):
        ENTRIES[name] = pair_fn
        return pair_fn
    return deco


def _selector_entry(mod, modname, cls):
    C = getattr(mod, cls)
    need_y = cls.startswith("PCov")

    def build(d):
        return {"X": d["X"], "y": d["y"]}

    def call(ctx, X, y):
        s = C(n_to_select=3)
        checked_fit(ctx, s, X, y)
        q = [("get_support()", lambda: s.get_support()), ("get_support(indices)", lambda: s.get_support(indices=True)),
             ("get_support(indices,ordered)", lambda: s.get_support(indices=True, ordered=True)), ("selected_idx_", lambda: s.selected_idx_),
             ("score", lambda: s.score(X, y))]
        if hasattr(s, "get_distance"):
            q += [("get_distance", lambda: s.get_distance()), ("get_select_distance", lambda: s.get_select_distance())]
        if mod is FS:
            q.append(("transform", lambda: s.transform(X)))
        queries_pure(ctx, s, q)
        s.get_support()
        s.get_support(indices=True)
        if mod is FS:
            s.transform(X)
            s2 = C(n_to_select=3)
            s2.fit_transform(X, y)
        s.n_to_select = 4
        checked_fit(ctx, s, X, y, warm_start=True)
        checked_fit(ctx, s, X, y, warm_start=True)        # a continuation with nothing left to select is still a fit
        if not need_y:
            C(n_to_select=2).fit(X)
        s.score(X, y)
    ENTRIES["%s.%s" % (modname, cls)] = (build, call)


for _mod, _mn in ((FS, "feature_selection"), (SS, "sample_selection")):
    for _cls in ("FPS", "CUR", "PCovFPS", "PCovCUR"):
        _selector_entry(_mod, _mn, _cls)

def _sel_fraction(C, **kw):
    def call(ctx, X, y):
        checked_fit(ctx, C(n_to_select=0.5, **kw), X, y)
        checked_fit(ctx, C(n_to_select=None, **kw), X, y)
    return call


for _mod, _mn in ((FS, "feature_selection"), (SS, "sample_selection")):
    for _cls in ("FPS", "CUR", "PCovFPS", "PCovCUR"):
        ENTRIES["%s.%s(n_to_select=0.5/None)" % (_mn, _cls)] = (lambda d: {"X": d["X"], "y": d["y"]}, _sel_fraction(getattr(_mod, _cls)))
ENTRIES["sample_selection.VoronoiFPS(n_to_select=0.5/None)"] = (lambda d: {"X": d["X"], "y": d["y"]}, _sel_fraction(SS.VoronoiFPS, full_fraction=0.5))
ENTRIES["sample_selection.FPS(initialize=array)"] = (
    lambda d: {"X": d["X"], "init": np.array([1, 3])},
    lambda ctx, X, init: checked_fit(ctx, SS.FPS(n_to_select=4, initialize=init), X))
ENTRIES["feature_selection.FPS(initialize=array)"] = (
    lambda d: {"X": d["X"], "init": np.array([2, 0])},
    lambda ctx, X, init: checked_fit(ctx, FS.FPS(n_to_select=3, initialize=init), X))


def _voronoi(ctx, X, y):
    s = SS.VoronoiFPS(n_to_select=3, full_fraction=0.5)
    checked_fit(ctx, s, X, y)
    queries_pure(ctx, s, [("get_support(indices)", lambda: s.get_support(indices=True)), ("get_support(indices,ordered)", lambda: s.get_support(indices=True, ordered=True)),
                          ("get_distance", lambda: s.get_distance()), ("get_select_distance", lambda: s.get_select_distance())])
    s.n_to_select = 5
    checked_fit(ctx, s, X, y, warm_start=True)
    checked_fit(ctx, s, X, y, warm_start=True)
    s.get_distance()
    s.get_select_distance()


ENTRIES["sample_selection.VoronoiFPS"] = (lambda d: {"X": d["X"], "y": d["y"]}, _voronoi)
ENTRIES["sample_selection.VoronoiFPS(full_fraction=None)"] = (
    lambda d: {"X": d["X"]}, lambda ctx, X: checked_fit(ctx, SS.VoronoiFPS(n_to_select=3), X))


def _dch(ctx, X, y):
    d = SS.DirectionalConvexHull(low_dim_idx=[0, 1])
    checked_fit(ctx, d, X, y)
    queries_pure(ctx, d, [("score_samples", lambda: d.score_samples(X, y)), ("score_feature_matrix", lambda: d.score_feature_matrix(X)),
                          ("selected_idx_", lambda: d.selected_idx_)])


ENTRIES["sample_selection.DirectionalConvexHull"] = (lambda d: {"X": d["X"], "y": d["y"]}, _dch)


def _pcovr(space):
    def call(ctx, X, Y):
        p = PCovR(n_components=2, space=space, mixing=0.5)
        checked_fit(ctx, p, X, Y)
        T = p.transform(X)
        queries_pure(ctx, p, [("transform", lambda: p.transform(X)), ("predict", lambda: p.predict(X)), ("predict(T)", lambda: p.predict(T=T)),
                              ("inverse_transform", lambda: p.inverse_transform(T)), ("score", lambda: p.score(X, Y))])
        PCovR(n_components=2, space=space).fit_transform(X, Y)
    return call


ENTRIES["decomposition.PCovR(feature)"] = (lambda d: {"X": d["X"], "Y": d["Y"]}, _pcovr("feature"))
ENTRIES["decomposition.PCovR(sample)"] = (lambda d: {"X": d["X"], "Y": d["Y"]}, _pcovr("sample"))
ENTRIES["decomposition.PCovR(1-D y)"] = (lambda d: {"X": d["X"], "Y": d["y"]}, _pcovr("feature"))


def _pcovr_pre(ctx, X, Y, W):
    checked_fit(ctx, PCovR(n_components=2, regressor="precomputed", space="sample"), X, Y, W=W)
    checked_fit(ctx, PCovR(n_components=2, regressor="precomputed", space="feature"), X, Y, W=W)


ENTRIES["decomposition.PCovR(precomputed, W)"] = (
    lambda d: {"X": d["X"], "Y": d["X"] @ (np.linalg.pinv(d["X"]) @ d["Y"]), "W": np.linalg.pinv(d["X"]) @ d["Y"]}, _pcovr_pre)


def _pcovr_fitted_regressor(ctx, X, Y):
    reg = Ridge(alpha=0.1, fit_intercept=False).fit(X, Y)
    c0 = reg.coef_.copy()
    checked_fit(ctx, PCovR(n_components=2, regressor=reg), X, Y)
    ctx.close("prefitted-regressor-untouched", reg.coef_, c0, 0.0, "coef_ of the caller's fitted Ridge")


ENTRIES["decomposition.PCovR(pre-fitted regressor)"] = (lambda d: {"X": d["X"], "Y": d["Y"]}, _pcovr_fitted_regressor)


def _kpcovr(ctx, X, Y):
    p = KernelPCovR(n_components=2, kernel="rbf", gamma=0.3, center=True, fit_inverse_transform=True)
    checked_fit(ctx, p, X, Y)
    T = p.transform(X)
    queries_pure(ctx, p, [("transform", lambda: p.transform(X)), ("predict", lambda: p.predict(X)), ("score", lambda: p.score(X, Y)),
                          ("inverse_transform", lambda: p.inverse_transform(T))])


ENTRIES["decomposition.KernelPCovR"] = (lambda d: {"X": d["X"], "Y": d["Y"]}, _kpcovr)


def _kpcovr_pre(ctx, K, Y, W):
    p = KernelPCovR(n_components=2, kernel="precomputed", regressor="precomputed")
    checked_fit(ctx, p, K, Y, W=W)
    p.transform(K)
    p.predict(K)


def _kpcovr_pre_args(d):
    K = d["X"] @ d["X"].T
    W = np.linalg.pinv(K) @ d["Y"]
    return {"K": K, "Y": K @ W, "W": W}


ENTRIES["decomposition.KernelPCovR(precomputed kernel, W)"] = (_kpcovr_pre_args, _kpcovr_pre)


def _kpcovr_pre_center(ctx, K, Y, Kt):
    p = KernelPCovR(n_components=2, kernel="precomputed", center=True)
    checked_fit(ctx, p, K, Y)
    xf = np.array(p.X_fit_, copy=True)
    p.transform(Kt)
    p.predict(Kt)
    p.score(K, Y)
    p.score(K, Y)
    ctx.close("fitted-state-stable", p.X_fit_, xf, 0.0, "X_fit_ changed by transform / predict / score")


ENTRIES["decomposition.KernelPCovR(precomputed kernel, center=True)"] = (
    lambda d: {"K": d["X"] @ d["X"].T, "Y": d["Y"], "Kt": d["rng"].normal(size=(4, d["m"])) @ d["X"].T}, _kpcovr_pre_center)


def _kpcovr_fitted(ctx, X, Y):
    reg = KernelRidge(alpha=0.1, kernel="rbf", gamma=0.3).fit(X, Y)
    c0 = reg.dual_coef_.copy()
    checked_fit(ctx, KernelPCovR(n_components=2, kernel="rbf", gamma=0.3, regressor=reg), X, Y)
    ctx.close("prefitted-regressor-untouched", reg.dual_coef_, c0, 0.0, "dual_coef_ of the caller's fitted KernelRidge")


ENTRIES["decomposition.KernelPCovR(pre-fitted regressor)"] = (lambda d: {"X": d["X"], "Y": d["Y"]}, _kpcovr_fitted)


def _sfs(copyflag):
    def call(ctx, X, w, Xn):
        s = SFS(column_wise=True, copy=copyflag)
        checked_fit(ctx, s, X, sample_weight=w)
        Z = s.transform(X)
        queries_pure(ctx, s, [("transform", lambda: s.transform(X)), ("transform(new)", lambda: s.transform(Xn)), ("inverse_transform", lambda: s.inverse_transform(Z))])
        SFS(copy=copyflag).fit_transform(X)
    return call


for _cf in (False, True):
    ENTRIES["preprocessing.StandardFlexibleScaler(copy=%s)" % _cf] = (
        lambda d: {"X": d["X"] + 3.0, "w": d["w"], "Xn": d["X"][:4] * 2.0}, _sfs(_cf))


def _kn(ctx, K, w, Kt):
    k = KN()
    checked_fit(ctx, k, K, sample_weight=w)
    queries_pure(ctx, k, [("transform", lambda: k.transform(K)), ("transform(test)", lambda: k.transform(Kt))])
    KN().fit_transform(K, sample_weight=w)
    KN(with_center=False).fit(K).transform(Kt)


ENTRIES["preprocessing.KernelNormalizer"] = (
    lambda d: {"K": d["X"] @ d["X"].T, "w": d["w"], "Kt": d["rng"].normal(size=(4, d["m"])) @ d["X"].T}, _kn)


def _skc(ctx, Knm, Kmm, w):
    s = SKC()
    checked_fit(ctx, s, Knm, Kmm, sample_weight=w)
    s.transform(Knm)
    SKC().fit_transform(Knm, Kmm, sample_weight=w)


ENTRIES["preprocessing.SparseKernelCenterer"] = (
    lambda d: {"Knm": d["X"] @ d["X"][:4].T, "Kmm": d["X"][:4] @ d["X"][:4].T, "w": d["w"]}, _skc)


def _r2f(ctx, X, Y, alphas, tr, te):
    r = Ridge2FoldCV(alphas=alphas, alpha_type="relative", regularization_method="cutoff")
    checked_fit(ctx, r, X, Y)
    r.predict(X)
    r2 = Ridge2FoldCV(alphas=alphas, cv=[(tr, te)], scoring="r2")
    checked_fit(ctx, r2, X, Y)


ENTRIES["linear_model.Ridge2FoldCV"] = (
    lambda d: {"X": d["X"], "Y": d["Y"], "alphas": np.array([1e-6, 1e-3, 0.1]), "tr": np.arange(0, d["n"], 2), "te": np.arange(1, d["n"], 2)}, _r2f)

for _proj in (True, False):
    ENTRIES["linear_model.OrthogonalRegression(projector=%s)" % _proj] = (
        lambda d: {"X": d["X"], "Y": d["Y"]},
        (lambda proj: lambda ctx, X, Y: checked_fit(ctx, OrthogonalRegression(use_orthogonal_projector=proj), X, Y).predict(X))(_proj))


def _kde_args(d):
    rng = d["rng"]
    D2 = rng.normal(size=(30, 2))
    return {"desc": D2, "w": rng.uniform(1, 2, size=30), "grid": D2[:5].copy(), "Q": rng.normal(size=(3, 2)), "cell": np.array([9.0, 9.0])}


def _kde(ctx, desc, w, grid, Q, cell):
    k = SparseKDE(desc, w, metric_params={"cell_length": cell}, fpoints=0.4)
    checked_fit(ctx, k, grid)
    queries_pure(ctx, k, [("score_samples", lambda: k.score_samples(Q)), ("score", lambda: k.score(Q)), ("sample", lambda: k.sample(3, random_state=0))])


ENTRIES["neighbors.SparseKDE(cell, weights)"] = (_kde_args, _kde)


def _kde2(ctx, desc, grid, Q):
    k = SparseKDE(desc, None, fspread=0.5)
    checked_fit(ctx, k, grid)
    k.score_samples(Q)


ENTRIES["neighbors.SparseKDE(fspread)"] = (lambda d: {k: v for k, v in _kde_args(d).items() if k in ("desc", "grid", "Q")}, _kde2)


def _qs_cut(ctx, X, cuts, w, cell):
    checked_fit(ctx, QuickShift(cuts, scale=1.5, metric_params={"cell_length": cell}), X, samples_weight=w)


ENTRIES["clustering.QuickShift(cut-off, cell)"] = (
    lambda d: {"X": d["rng"].normal(size=(10, 2)), "cuts": np.full(10, 2.0), "w": d["rng"].normal(size=10), "cell": np.array([9.0, 9.0])}, _qs_cut)
ENTRIES["clustering.QuickShift(gabriel)"] = (
    lambda d: {"X": d["rng"].normal(size=(10, 2)), "w": d["rng"].normal(size=10)},
    lambda ctx, X, w: checked_fit(ctx, QuickShift(gabriel_shell=2), X, samples_weight=w))


def _rec_args(d):
    rng = d["rng"]
    return {"X": rng.normal(size=(40, 4)), "Y": rng.normal(size=(40, 3)), "train_idx": np.arange(0, 40, 2), "test_idx": np.arange(1, 40, 2)}


for _fn in ("global_reconstruction_error", "pointwise_global_reconstruction_error", "global_reconstruction_distortion",
            "pointwise_global_reconstruction_distortion"):
    ENTRIES["metrics." + _fn] = (_rec_args, (lambda fn: lambda ctx, X, Y, train_idx, test_idx:
                                             getattr(M, fn)(X, Y, train_idx=train_idx, test_idx=test_idx))(_fn))
for _fn in ("local_reconstruction_error", "pointwise_local_reconstruction_error"):
    ENTRIES["metrics." + _fn] = (_rec_args, (lambda fn: lambda ctx, X, Y, train_idx, test_idx:
                                             getattr(M, fn)(X, Y, 5, train_idx=train_idx, test_idx=test_idx[:4]))(_fn))
ENTRIES["metrics.global_reconstruction_error(default split)"] = (
    lambda d: {k: v for k, v in _rec_args(d).items() if k in ("X", "Y")}, lambda ctx, X, Y: M.global_reconstruction_error(X, Y))


def _rig_args(d):
    Xb = d["rng"].normal(size=(12, 4))
    return {"a": Xb[:3], "b": Xb[3:8], "c": Xb[8:10], "e": Xb[10:11], "cd": np.array([1, 3])}


ENTRIES["metrics.local_prediction_rigidity"] = (
    lambda d: {k: v for k, v in _rig_args(d).items() if k != "cd"}, lambda ctx, a, b, c, e: M.local_prediction_rigidity([a, b], [c, e], 0.1))
ENTRIES["metrics.componentwise_prediction_rigidity"] = (
    _rig_args, lambda ctx, a, b, c, e, cd: M.componentwise_prediction_rigidity([a, b], [c, e], 0.1, cd))
ENTRIES["metrics.periodic_pairwise_euclidean_distances(cell)"] = (
    lambda d: {"X": d["X"][:5, :4], "Y": d["X"][5:9, :4], "cell": np.array([1.0, 2, 3, 4])},
    lambda ctx, X, Y, cell: (M.periodic_pairwise_euclidean_distances(X, Y, cell_length=cell),
                             M.periodic_pairwise_euclidean_distances(X, cell_length=cell, squared=True)))
ENTRIES["metrics.periodic_pairwise_euclidean_distances(no cell)"] = (
    lambda d: {"X": d["X"][:5], "Y": d["X"][5:9]}, lambda ctx, X, Y: M.periodic_pairwise_euclidean_distances(X, Y))
ENTRIES["metrics.pairwise_mahalanobis_distances"] = (
    lambda d: {"X": d["X"][:5, :4], "Y": d["X"][5:9, :4], "P": np.eye(4)[None] * np.ones((2, 1, 1)), "cell": np.array([1.0, 2, 3, 4])},
    lambda ctx, X, Y, P, cell: (M.pairwise_mahalanobis_distances(X, Y, P, cell), M.pairwise_mahalanobis_distances(X, Y, P[0])))
ENTRIES["utils.X_orthogonalizer(x2, copy=True)"] = (
    lambda d: {"x1": d["X"], "x2": d["X"][:, :2].copy()}, lambda ctx, x1, x2: U.X_orthogonalizer(x1, x2=x2, copy=True))
ENTRIES["utils.X_orthogonalizer(c, copy=True)"] = (lambda d: {"x1": d["X"]}, lambda ctx, x1: U.X_orthogonalizer(x1, c=1, copy=True))
ENTRIES["utils.Y_feature_orthogonalizer(copy=True)"] = (
    lambda d: {"y": d["Y"], "X": d["X"][:, :2].copy()}, lambda ctx, y, X: U.Y_feature_orthogonalizer(y, X))
ENTRIES["utils.Y_sample_orthogonalizer(copy=True)"] = (
    lambda d: {"y": d["Y"], "X": d["X"], "yr": d["Y"][:3].copy(), "Xr": d["X"][:3].copy()},
    lambda ctx, y, X, yr, Xr: U.Y_sample_orthogonalizer(y, X, yr, Xr))
ENTRIES["utils.pcovr_covariance"] = (lambda d: {"X": d["X"], "Y": d["Y"]}, lambda ctx, X, Y: (U.pcovr_covariance(0.5, X, Y), U.pcovr_covariance(0.5, X, Y, return_isqrt=True)))
ENTRIES["utils.pcovr_kernel"] = (lambda d: {"X": d["X"], "Y": d["Y"]}, lambda ctx, X, Y: U.pcovr_kernel(0.5, X, Y))
ENTRIES["utils.effdim/oas"] = (
    lambda d: {"C": d["X"].T @ d["X"] / d["n"]}, lambda ctx, C: (U.effdim(C), U.oas(C, 10.0, C.shape[0])))
ENTRIES["model_selection.train_test_split"] = (
    lambda d: {"X": d["X"], "y": d["y"]}, lambda ctx, X, y: (train_test_split(X, y, test_size=0.3, random_state=0),
                                                             train_test_split(X, y, train_test_overlap=True, train_size=0.6, test_size=0.6, random_state=0)))

ENTRY_NAMES = sorted(ENTRIES)


# ----------------------------------------------------------------------------
# refit table: name -> (factory, fit(est, d, use_optional))
# ----------------------------------------------------------------------------
def _sel_refit(mod, cls):
    C = getattr(mod, cls)
    need_y = cls.startswith("PCov")
    return (lambda: C(n_to_select=3), lambda e, d, opt: e.fit(d["X"], d["y"] if (need_y or opt) else None))


REFIT = {}
for _mod, _mn in ((FS, "feature_selection"), (SS, "sample_selection")):
    for _cls in ("FPS", "CUR", "PCovFPS", "PCovCUR"):
        REFIT["%s.%s" % (_mn, _cls)] = _sel_refit(_mod, _cls)
REFIT["sample_selection.VoronoiFPS"] = (lambda: SS.VoronoiFPS(n_to_select=3, full_fraction=0.5), lambda e, d, opt: e.fit(d["X"], d["y"] if opt else None))
REFIT["sample_selection.DirectionalConvexHull"] = (lambda: SS.DirectionalConvexHull(low_dim_idx=[0]), lambda e, d, opt: e.fit(d["X"], d["y"]),
                                                   lambda e, d: {"score_samples": e.score_samples(d["X"], d["y"] + 0.5), "score_feature_matrix": np.nan_to_num(e.score_feature_matrix(d["X"]))})
REFIT["decomposition.PCovR(feature)"] = (lambda: PCovR(n_components=2, space="feature"), lambda e, d, opt: e.fit(d["X"], d["Y"] if opt else d["y"]))
REFIT["decomposition.PCovR(sample)"] = (lambda: PCovR(n_components=2, space="sample"), lambda e, d, opt: e.fit(d["X"], d["Y"] if opt else d["y"]))
REFIT["decomposition.KernelPCovR"] = (lambda: KernelPCovR(n_components=2, kernel="rbf", gamma=0.2, center=True, fit_inverse_transform=True),
                                      lambda e, d, opt: e.fit(d["X"], d["Y"] if opt else d["y"]))
REFIT["preprocessing.StandardFlexibleScaler"] = (lambda: SFS(column_wise=True), lambda e, d, opt: e.fit(d["X"] + 1.0, sample_weight=d["w"] if opt else None))
REFIT["preprocessing.KernelNormalizer"] = (lambda: KN(), lambda e, d, opt: e.fit(d["X"] @ d["X"].T, sample_weight=d["w"] if opt else None))
REFIT["preprocessing.SparseKernelCenterer"] = (lambda: SKC(), lambda e, d, opt: e.fit(d["X"] @ d["X"][:3].T, d["X"][:3] @ d["X"][:3].T,
                                                                                        sample_weight=d["w"] if opt else None))
REFIT["linear_model.Ridge2FoldCV"] = (lambda: Ridge2FoldCV(alphas=[1e-3, 1e-1], random_state=0), lambda e, d, opt: e.fit(d["X"], d["Y"] if opt else d["Y"][:, :1]))
REFIT["linear_model.OrthogonalRegression(projector)"] = (lambda: OrthogonalRegression(), lambda e, d, opt: e.fit(d["X"], d["Y"]))
REFIT["linear_model.OrthogonalRegression(padded)"] = (lambda: OrthogonalRegression(use_orthogonal_projector=False), lambda e, d, opt: e.fit(d["X"], d["Y"]))
REFIT["clustering.QuickShift(gabriel)"] = (lambda: QuickShift(gabriel_shell=2), lambda e, d, opt: e.fit(d["X"][:, :2], samples_weight=d["w"]))
# entries may carry a third element: probe(est, d) -> dict of outputs compared with the fresh estimator's (this is how stale
# private caches become visible); estimator-valued constructor arguments are created by the factory, so the estimator under
# test re-uses ONE regressor object across its whole history while the fresh model gets a new one
from sklearn.linear_model import LinearRegression  # noqa: E402


def _probe_sel(e, d):
    out = {"support": np.asarray(e.get_support())}
    if hasattr(e, "get_select_distance"):
        out["select_distance"] = np.asarray(e.get_select_distance(), float)
    return out


for _k in list(REFIT):
    if _k.startswith(("feature_selection.", "sample_selection.")) and not _k.endswith("DirectionalConvexHull"):
        REFIT[_k] = REFIT[_k] + (_probe_sel,)

REFIT["feature_selection.FPS(relative threshold)"] = (
    lambda: FS.FPS(n_to_select=4, score_threshold=0.2, score_threshold_type="relative"), lambda e, d, opt: e.fit(d["X"] * (1.0 if opt else 50.0)), _probe_sel)
REFIT["sample_selection.CUR(relative threshold)"] = (
    lambda: SS.CUR(n_to_select=4, score_threshold=0.3, score_threshold_type="relative"), lambda e, d, opt: e.fit(d["X"] * (1.0 if opt else 0.02)), _probe_sel)
REFIT["sample_selection.PCovCUR(absolute threshold)"] = (
    lambda: SS.PCovCUR(n_to_select=4, score_threshold=1e-3), lambda e, d, opt: e.fit(d["X"], d["y"]), _probe_sel)
REFIT["sample_selection.FPS(n_to_select=0.5)"] = (lambda: SS.FPS(n_to_select=0.5), lambda e, d, opt: e.fit(d["X"]), _probe_sel)
REFIT["feature_selection.CUR(n_to_select=0.5)"] = (lambda: FS.CUR(n_to_select=0.5), lambda e, d, opt: e.fit(d["X"]), _probe_sel)
REFIT["sample_selection.PCovCUR(n_to_select=None)"] = (lambda: SS.PCovCUR(), lambda e, d, opt: e.fit(d["X"], d["y"]), _probe_sel)
REFIT["sample_selection.FPS(initialize=random)"] = (
    lambda: SS.FPS(n_to_select=3, initialize="random", random_state=3), lambda e, d, opt: e.fit(d["X"]), _probe_sel)
REFIT["feature_selection.PCovFPS(initialize=random)"] = (
    lambda: FS.PCovFPS(n_to_select=3, initialize="random", random_state=5), lambda e, d, opt: e.fit(d["X"], d["y"]), _probe_sel)
REFIT["sample_selection.VoronoiFPS(initialize=random)"] = (
    lambda: SS.VoronoiFPS(n_to_select=3, initialize="random", random_state=2, full_fraction=0.7), lambda e, d, opt: e.fit(d["X"]), _probe_sel)


def _probe_pcovr(e, d):
    return {"transform": e.transform(d["X"]), "predict": np.asarray(e.predict(d["X"])), "score": e.score(d["X"], d["Y"] if e.pty_.ndim == 2 else d["y"])}


REFIT["decomposition.PCovR(feature)"] = REFIT["decomposition.PCovR(feature)"] + (_probe_pcovr,)
REFIT["decomposition.PCovR(sample)"] = REFIT["decomposition.PCovR(sample)"] + (_probe_pcovr,)
REFIT["decomposition.PCovR(own Ridge regressor)"] = (
    lambda: PCovR(n_components=2, mixing=0.3, regressor=Ridge(alpha=0.1, fit_intercept=False)), lambda e, d, opt: e.fit(d["X"], d["Y"] if opt else d["y"]), _probe_pcovr)
REFIT["decomposition.PCovR(own LinearRegression, sample space)"] = (
    lambda: PCovR(n_components=2, mixing=0.0, space="sample", regressor=LinearRegression(fit_intercept=False)), lambda e, d, opt: e.fit(d["X"], d["Y"]), _probe_pcovr)


def _probe_kpcovr(e, d):
    return {"transform": e.transform(d["X"]), "predict": np.asarray(e.predict(d["X"]))}


REFIT["decomposition.KernelPCovR"] = REFIT["decomposition.KernelPCovR"] + (_probe_kpcovr,)
REFIT["decomposition.KernelPCovR(own KernelRidge regressor)"] = (
    lambda: KernelPCovR(n_components=2, kernel="rbf", gamma=0.2, regressor=KernelRidge(alpha=0.1, kernel="rbf", gamma=0.2)),
    lambda e, d, opt: e.fit(d["X"], d["Y"]), _probe_kpcovr)
REFIT["linear_model.OrthogonalRegression(own LinearRegression)"] = (
    lambda: OrthogonalRegression(linear_estimator=LinearRegression(fit_intercept=False)), lambda e, d, opt: e.fit(d["X"], d["Y"]),
    lambda e, d: {"predict": e.predict(d["X"])})
REFIT["linear_model.OrthogonalRegression(own Ridge)"] = (
    lambda: OrthogonalRegression(linear_estimator=Ridge(alpha=1e-8, fit_intercept=False)), lambda e, d, opt: e.fit(d["X"], d["Y"]),
    lambda e, d: {"predict": e.predict(d["X"])})
REFIT["linear_model.Ridge2FoldCV"] = REFIT["linear_model.Ridge2FoldCV"] + (lambda e, d: {"predict": e.predict(d["X"])},)
REFIT["preprocessing.StandardFlexibleScaler"] = REFIT["preprocessing.StandardFlexibleScaler"] + (lambda e, d: {"transform": e.transform(d["X"])},)
REFIT["preprocessing.KernelNormalizer"] = REFIT["preprocessing.KernelNormalizer"] + (lambda e, d: {"transform": e.transform(d["X"][:3] @ d["X"].T)},)

_KDE_DESC = np.random.default_rng(123).normal(size=(40, 2)) * np.array([1.0, 0.4]) + np.array([[0.0, 0.0]] * 20 + [[3.0, 1.0]] * 20)


def _kde_fit(e, d, opt):
    idx = np.random.default_rng(d["n"] * 1000 + int(abs(d["X"][0, 0]) * 1e6) % 997).permutation(40)[: 5 if opt else 7]
    return e.fit(_KDE_DESC[idx].copy())


REFIT["neighbors.SparseKDE"] = (lambda: SparseKDE(_KDE_DESC.copy(), None, fpoints=0.4), _kde_fit,
                                lambda e, d: {"score_samples": e.score_samples(_KDE_DESC[::7] + 0.05), "score": e.score(_KDE_DESC[::9] + 0.1)})
REFIT["neighbors.SparseKDE(fspread, weights)"] = (
    lambda: SparseKDE(_KDE_DESC.copy(), np.linspace(1, 2, 40), fspread=0.6), _kde_fit,
    lambda e, d: {"score_samples": e.score_samples(_KDE_DESC[::7] + 0.05)})
REFIT_NAMES = sorted(REFIT)

# ----------------------------------------------------------------------------
# hyper-parameters changed between two fits of one object: name -> (constructor taking overrides, fit, probe, [(parameter, new value)])
# The object under test is built with the defaults below, fitted, gets ONE hyper-parameter changed (set_params or plain attribute
# assignment) and is fitted again; the reference is built with the new value through the constructor and fitted once.
# ----------------------------------------------------------------------------
_CELL = np.array([3.0, 4.5])
REPARAM = {
    "preprocessing.KernelNormalizer": (lambda **kw: KN(**kw), "preprocessing.KernelNormalizer", [("with_center", False), ("with_trace", False)]),
    "preprocessing.SparseKernelCenterer": (lambda **kw: SKC(**kw), "preprocessing.SparseKernelCenterer", [("with_center", False), ("with_trace", False)]),
    "preprocessing.StandardFlexibleScaler": (lambda **kw: SFS(**dict(dict(column_wise=True), **kw)), "preprocessing.StandardFlexibleScaler",
                                             [("with_mean", False), ("with_std", False), ("column_wise", False)]),
    "linear_model.OrthogonalRegression(projector)": (lambda **kw: OrthogonalRegression(**kw), "linear_model.OrthogonalRegression(projector)",
                                                     [("use_orthogonal_projector", False)]),
    "linear_model.OrthogonalRegression(padded)": (lambda **kw: OrthogonalRegression(**dict(dict(use_orthogonal_projector=False), **kw)),
                                                  "linear_model.OrthogonalRegression(padded)", [("use_orthogonal_projector", True)]),
    "linear_model.Ridge2FoldCV": (lambda **kw: Ridge2FoldCV(**dict(dict(alphas=[1e-3, 1e-1], random_state=0), **kw)), "linear_model.Ridge2FoldCV",
                                  [("alphas", [1e-2, 1.0, 10.0]), ("regularization_method", "cutoff"), ("alpha_type", "relative")]),
    "decomposition.PCovR(feature)": (lambda **kw: PCovR(**dict(dict(n_components=2, space="feature"), **kw)), "decomposition.PCovR(feature)",
                                     [("mixing", 0.9), ("n_components", 3), ("space", "sample"), ("svd_solver", "arpack")]),
    "decomposition.PCovR(sample)": (lambda **kw: PCovR(**dict(dict(n_components=2, space="sample"), **kw)), "decomposition.PCovR(sample)",
                                    [("mixing", 0.1), ("n_components", 1), ("space", "feature")]),
    "decomposition.KernelPCovR": (lambda **kw: KernelPCovR(**dict(dict(n_components=2, kernel="rbf", gamma=0.2, center=True, fit_inverse_transform=True), **kw)),
                                  "decomposition.KernelPCovR", [("mixing", 0.9), ("kernel", "linear"), ("gamma", 1.0), ("center", False), ("n_components", 3)]),
    "clustering.QuickShift(gabriel)": (lambda **kw: QuickShift(**dict(dict(gabriel_shell=2), **kw)), "clustering.QuickShift(gabriel)",
                                       [("gabriel_shell", 1), ("metric_params", {"cell_length": _CELL}), ("scale", 2.0)]),
    "sample_selection.DirectionalConvexHull": (lambda **kw: SS.DirectionalConvexHull(**dict(dict(low_dim_idx=[0, 1]), **kw)),
                                               "sample_selection.DirectionalConvexHull", [("low_dim_idx", [0]), ("low_dim_idx", [2, 0])]),
    "neighbors.SparseKDE": (lambda **kw: SparseKDE(_KDE_DESC.copy(), None, **dict(dict(fpoints=0.4), **kw)), "neighbors.SparseKDE", [("fpoints", 0.25)]),
}
for _mod, _mn in ((FS, "feature_selection"), (SS, "sample_selection")):
    for _cls in ("FPS", "CUR", "PCovFPS", "PCovCUR"):
        _chg = [("n_to_select", 2), ("n_to_select", 0.75), ("score_threshold", 1e-9)]
        if "FPS" in _cls:
            _chg += [("initialize", 2)]
        if "CUR" in _cls:
            _chg += [("recompute_every", 0), ("k", 2)]
        if _cls.startswith("PCov"):
            _chg += [("mixing", 0.9)]
        REPARAM["%s.%s" % (_mn, _cls)] = ((lambda C: (lambda **kw: C(**dict(dict(n_to_select=3), **kw))))(getattr(_mod, _cls)), "%s.%s" % (_mn, _cls), _chg)
REPARAM["sample_selection.VoronoiFPS"] = (lambda **kw: SS.VoronoiFPS(**dict(dict(n_to_select=3, full_fraction=0.5), **kw)), "sample_selection.VoronoiFPS",
                                          [("n_to_select", 5), ("full_fraction", 0.9), ("initialize", 3)])
REPARAM_NAMES = sorted(REPARAM)


# ----------------------------------------------------------------------------
# strategy
# ----------------------------------------------------------------------------
@st.composite
def strategy_(draw, tier):
    family = draw(st.sampled_from(["purity", "purity", "purity", "refit", "repeat", "reparam"]))
    if family == "reparam":
        name = draw(st.sampled_from(REPARAM_NAMES))
        return {"family": family, "est": name, "change": draw(st.integers(0, len(REPARAM[name][2]) - 1)), "how": draw(st.sampled_from(["set_params", "setattr"])),
                "seeds": [draw(st.integers(0, 10 ** 6)), draw(st.integers(0, 10 ** 6))], "size": draw(st.sampled_from(["small", "large"])),
                "opt": draw(st.booleans()), "same_data": draw(st.booleans())}
    if family == "purity":
        name = draw(st.sampled_from(ENTRY_NAMES))
        seed = draw(st.integers(0, 10 ** 6))
        build, _ = ENTRIES[name]
        args = build(data(seed))
        keys = sorted(k for k, v in args.items() if isinstance(v, np.ndarray))
        lays = {k: draw(st.sampled_from(LAYOUTS)) for k in keys}
        return {"family": family, "entry": name, "seed": seed, "layouts": lays,
                "dtype": draw(st.sampled_from(["float64", "float64", "float64", "float32", "int64"]))}
    if family == "refit":
        name = draw(st.sampled_from(REFIT_NAMES))
        steps = draw(st.lists(st.tuples(st.integers(0, 10 ** 6), st.sampled_from(["small", "large"]), st.booleans()), min_size=2, max_size=3))
        return {"family": family, "est": name, "steps": [list(s) for s in steps]}
    name = draw(st.sampled_from(REFIT_NAMES))
    return {"family": family, "est": name, "seed": draw(st.integers(0, 10 ** 6)), "size": draw(st.sampled_from(["small", "large"])),
            "opt": draw(st.booleans())}


def strategy(tier):
    return strategy_(tier)


SIZES = {"small": (9, 4), "large": (14, 6)}


def exhaustive(tier):
    """Every entry point once in every single-layout assignment, and every refit estimator with the canonical two-step histories."""
    for name in ENTRY_NAMES:
        build, _ = ENTRIES[name]
        keys = sorted(k for k, v in build(data(7)).items() if isinstance(v, np.ndarray))
        for lay in LAYOUTS:
            yield {"family": "purity", "entry": name, "seed": 7, "layouts": {k: lay for k in keys}, "dtype": "float64"}
    for name in REFIT_NAMES:
        for sa, sb, oa, ob in (("large", "small", True, True), ("small", "large", True, True), ("large", "small", True, False),
                               ("small", "large", False, True)):
            yield {"family": "refit", "est": name, "steps": [[11, sa, oa], [12, sb, ob]]}
    for name in REPARAM_NAMES:
        for ci in range(len(REPARAM[name][2])):
            for how in ("set_params", "setattr"):
                yield {"family": "reparam", "est": name, "change": ci, "how": how, "seeds": [11, 12], "size": "large", "opt": True, "same_data": False}


EXHAUSTIVE_PARTS = {
    "quick": ["every entry point of the purity table x each of the 4 layouts applied to all array arguments; every estimator of the refit "
              "table x 4 canonical two-step histories (large->small, small->large, with->without optional targets/weights and back); every "
              "(estimator, hyper-parameter change) of the reparam table by set_params and by attribute assignment"],
    "thorough": ["same enumeration as quick"],
}


# ----------------------------------------------------------------------------
def exec_purity(case, ctx):
    name = case["entry"]
    build, call = ENTRIES[name]
    args = build(data(case["seed"]))
    main = "X" if "X" in args else None
    laid = {}
    for k, v in args.items():
        if isinstance(v, np.ndarray):
            a = v
            if k == main and case["dtype"] != "float64":
                a = np.round(v * 4).astype("int64") if case["dtype"] == "int64" else v.astype("float32")
            laid[k] = relayout(a, case["layouts"].get(k, "C"))
        else:
            laid[k] = v
    before = {k: snap(v) for k, v in laid.items()}
    ctx.cls("entry=" + name)
    ro_used = any(case["layouts"].get(k) == "ro" for k in laid if isinstance(laid[k], np.ndarray))
    try:
        call(ctx, **laid)
        executed = True
    except Exception as e:  # noqa: BLE001
        executed = False
        msg = "%s: %s" % (type(e).__name__, str(e)[:160])
        if ro_used and ("read-only" in str(e) or "readonly" in str(e).lower()):
            # a write to a caller array was attempted: confirm on writable copies
            w = {k: (np.array(v, copy=True) if isinstance(v, np.ndarray) else v) for k, v in laid.items()}
            b2 = {k: snap(v) for k, v in w.items()}
            try:
                call(type(ctx)(ctx.tier), **w)
                mutated = [k for k in w if snap(w[k]) != b2[k]]
                if mutated:
                    ctx.fail(_mut_sub(name, mutated), "%s writes to caller argument(s) %s (raised on a read-only buffer: %s)" % (name, mutated, msg))
                else:
                    ctx.cls("readonly-rejected-without-mutation")
            except Exception:  # noqa: BLE001
                ctx.cls("argument-rejected")
        elif case["dtype"] != "float64":
            ctx.cls("argument-rejected(dtype)")
        else:
            from vf.core import innermost_frame
            ctx.fail("exception:" + name, msg + " @ " + innermost_frame(e))
    mutated = [k for k in laid if snap(laid[k]) != before[k]]
    if mutated:
        ctx.fail(_mut_sub(name, mutated), "%s modified caller argument(s) %s (layout %s)" % (name, mutated, {k: case["layouts"].get(k) for k in mutated}))
    if executed:
        ctx.nontrivial = True
        for k, lay in case["layouts"].items():
            ctx.cls("layout=" + lay)


def _mut_sub(name, mutated):
    return "mutated-argument"


def exec_refit(case, ctx):
    name = case["est"]
    factory, fit = REFIT[name][:2]
    probe = REFIT[name][2] if len(REFIT[name]) > 2 else None
    ctx.cls("refit=" + name, "steps=%d" % len(case["steps"]))
    est = factory()
    for i, (seed, size, opt) in enumerate(case["steps"]):
        n, m = SIZES[size]
        d = data(seed, n, m)
        try:
            r = fit(est, d, opt)
            out = probe(est, d) if probe else None
        except Exception as e:  # noqa: BLE001
            from vf.core import innermost_frame
            ctx.fail("exception:refit", "%s: fit #%d (%s, optional=%s) after %s raised %s: %s @ %s"
                     % (name, i, size, opt, case["steps"][:i], type(e).__name__, str(e)[:120], innermost_frame(e)))
            return
        ctx.true("fit-returns-self", r is est, "%s.fit returned %s" % (name, type(r).__name__))
        fresh = factory()
        d2 = data(seed, n, m)
        fit(fresh, d2, opt)
        compare_estimators(ctx, "refit-state", fresh, est)
        if probe and not ctx.problems:
            ref = probe(fresh, d2)
            for k in ref:
                compare_state(ctx, "refit-behaviour:" + k, ref[k], out[k], "%s after fit #%d" % (k, i))
        if ctx.problems:
            return
    ctx.nontrivial = True


def exec_repeat(case, ctx):
    name = case["est"]
    factory, fit = REFIT[name][:2]
    n, m = SIZES[case["size"]]
    ctx.cls("repeat=" + name)
    with ctx.lib("fit-a"):
        a = factory()
        fit(a, data(case["seed"], n, m), case["opt"])
    with ctx.lib("fit-b"):
        b = factory()
        fit(b, data(case["seed"], n, m), case["opt"])
    compare_estimators(ctx, "repeat-state", a, b)
    # fit_transform == fit().transform() where both exist
    d = data(case["seed"], n, m)
    if name.startswith("feature_selection"):
        with ctx.lib("fit_transform"):
            ft = factory().fit_transform(d["X"], d["y"])
            t = factory().fit(d["X"], d["y"]).transform(d["X"])
        ctx.close("fit_transform==fit+transform", ft, t, 0.0, name)
    if name.startswith("decomposition.PCovR(feature)") or name.startswith("decomposition.PCovR(sample)") or name == "decomposition.KernelPCovR":
        # latent coordinates of the training set: tall data and wide data (more features than samples)
        for dd in (d, data(case["seed"] + 1, 5, 9)):
            Yarg = dd["Y"] if case["opt"] else dd["y"]
            with ctx.lib("fit_transform"):
                ft = np.asarray(factory().fit_transform(dd["X"], Yarg))
                t = np.asarray(factory().fit(dd["X"], Yarg).transform(dd["X"]))
            ctx.close("fit_transform==fit+transform", ft, t, 1e-9 * max(1.0, float(np.abs(t).max())), "%s on %dx%d data" % (name, dd["n"], dd["m"]))
    ctx.nontrivial = True


def exec_reparam(case, ctx):
    name = case["est"]
    ctor, refit_name, changes = REPARAM[name]
    fit = REFIT[refit_name][1]
    probe = REFIT[refit_name][2] if len(REFIT[refit_name]) > 2 else None
    param, value = changes[case["change"]]
    n, m = SIZES[case["size"]]
    if param == "k":
        n, m = SIZES["large"]          # (k = 2 needs a residual of rank >= 2 after the last selection, or the final scores are arbitrary)
    ctx.cls("reparam=%s:%s" % (name, param), "how=" + case["how"])
    d1 = data(case["seeds"][0], n, m)
    d2 = d1 if case["same_data"] else data(case["seeds"][1], n, m)
    import copy
    try:
        est = ctor()
        fit(est, d1, case["opt"])
        done = False
        if case["how"] == "set_params" and hasattr(est, "set_params"):
            try:
                est.set_params(**{param: copy.deepcopy(value)})
                done = True
            except ValueError as e:
                if "Invalid parameter" not in str(e):     # (constructor arguments that get_params does not list: plain assignment instead)
                    raise
                ctx.cls("set_params-unavailable")
        if not done:
            setattr(est, param, copy.deepcopy(value))
        fit(est, d2, case["opt"])
        out = probe(est, d2) if probe else None
    except Exception as e:  # noqa: BLE001
        from vf.core import innermost_frame
        ctx.fail("exception:reparam", "%s: fit, %s=%r by %s, fit raised %s: %s @ %s" % (name, param, value, case["how"], type(e).__name__, str(e)[:120], innermost_frame(e)))
        return
    with ctx.lib("reference fit"):
        fresh = ctor(**{param: copy.deepcopy(value)})
        fit(fresh, data(case["seeds"][0] if case["same_data"] else case["seeds"][1], n, m), case["opt"])
        ref = probe(fresh, d2) if probe else None
    compare_estimators(ctx, "reparam-state", fresh, est, allow_leftovers=True)
    if probe and not ctx.problems:
        for k in ref:
            compare_state(ctx, "reparam-behaviour:" + k, ref[k], out[k], "%s after %s=%r (%s) and a second fit" % (k, param, value, case["how"]))
    ctx.nontrivial = True


def check(case, ctx):
    ctx.cls("family=" + case["family"])
    if case["family"] == "reparam":
        exec_reparam(case, ctx)
    elif case["family"] == "purity":
        exec_purity(case, ctx)
    elif case["family"] == "refit":
        exec_refit(case, ctx)
    else:
        exec_repeat(case, ctx)


def known_filter(case, problems, active):
    rest, hits = [], []
    for p in problems:
        if p["sub"].startswith("K2:") and "K2" in active:
            hits.append("K2")
        else:
            rest.append(p)
    return rest, sorted(set(hits))


def summarize(case):
    return {k: v for k, v in case.items()}


RULE = RULE % (len(ENTRIES), len(REFIT))

"""C03 - PCovR's latent space does not depend on the computational route."""

import numpy as np
from hypothesis import strategies as st

from skmatter.decomposition import PCovR
from skmatter.utils import pcovr_covariance, pcovr_kernel
from vf import pc

ID = "C03"
TITLE = "PCovR's latent space does not depend on the computational route"
TECHNIQUE = 'Hypothesis PBT, differential (feature vs sample space, truncated vs full solver) against a dense eigendecomposition oracle, gap-aware'
LEVEL = 'Generated-input exploration: latent Gram matrices, predictions, reconstructions, per-component coordinates and reported spectra of every route are compared with each other and with a dense eigh of the independently built modified Gram matrix. No absence claim: strength = the counted distinct non-trivial cases in the evidence.'
BUDGET = {"quick": 500, "thorough": 15000}
RULE = ("Cases: centred, unit-variance X (tall / wide / square, 30% exactly rank-deficient products), 3..14 (thorough: to 48) "
        "rows/columns, Y = XB + noise with 1..3 targets; mixing in {0,.05,.3,.5,.9,1}; n_components drawn up to the rank of "
        "the modified Gram matrix; regressors default Ridge(1e-6), Ridge(alpha), LinearRegression(no intercept) and "
        "'precomputed' Yhat with / without W (the unregularised ones only with well-conditioned tall X); spaces feature "
        "and sample; solvers full, arpack, randomized.  Oracle: dense eigh of K~ = a XX^T + (1-a) Yhat Yhat^T with Yhat from "
        "an independent closed form.  Non-trivial: relative gap (lambda_k - lambda_k+1)/lambda_1 > 1e-6 and "
        "lambda_k/lambda_1 > 1e-8, so that the retained subspace is determined; distinct = SHA-1 of the canonical case.")
ASSUMPTIONS = [
    "comparisons that involve eigenvectors use tolerance 1e-7/gap; cases below the gap rule are skipped (counted)",
    "cases with an eigenvalue of X^T X inside [1e-14,1e-9] (grey zone of PCovR's absolute tol=1e-12) are skipped",
    "randomized solver: compared only when its sketch (k+10 columns) spans the decomposed matrix or the oracle spectrum "
    "guarantees convergence (lambda_{k+11}/lambda_k)^(2q+1) < 1e-10 with q=iterated_power=10",
    "unregularised regressors are crossed only with full-column-rank, well-conditioned tall X (Yhat is otherwise not determined by the data)",
]


@st.composite
def strategy_(draw, tier):
    fullrank_reg = draw(st.integers(0, 9)) < 3
    # a tenth of the quick cases use the larger shapes too: the truncated / automatic solver policy only differs from the
    # full decomposition when the matrix is larger than k + 10
    big = tier == "thorough" or draw(st.integers(0, 9)) == 0
    d = draw(pc.xy("thorough" if big else "quick", need_fullrank=fullrank_reg))
    X, Y = d["X"], d["Y"]
    if draw(st.integers(0, 9)) < 3:
        # only X has to be centred: targets with a non-zero mean are legal (the regressors carry no intercept)
        Y = Y + draw(st.sampled_from([0.5, 3.0])) * pc.gen.normal(draw, (1, Y.shape[1]))
    n, m = X.shape
    reg = pc.draw_regressor(draw, fullrank_ok=fullrank_reg and pc.well_conditioned_tall(X))
    mix = draw(st.sampled_from([0.0, 0.05, 0.3, 0.5, 0.9, 1.0]))
    rk = int(np.linalg.matrix_rank(X))
    kmax = min(n, m)
    if mix == 0.0:
        pref = min(kmax, Y.shape[1])
    else:
        pref = max(1, min(kmax, rk))
    k = draw(st.integers(1, pref)) if draw(st.integers(0, 9)) < 8 else draw(st.integers(1, kmax))
    solver = draw(st.sampled_from(["full", "arpack", "randomized"]))
    y1d = Y.shape[1] == 1 and draw(st.booleans())
    return {"shape": d["shape"], "lowrank": d["lowrank"], "X": X, "Y": Y, "reg": reg, "mixing": mix, "k": k,
            "solver": solver, "solver_space": draw(st.sampled_from(["feature", "sample"])), "y1d": y1d,
            "random_state": draw(st.integers(0, 3))}


def strategy(tier):
    return strategy_(tier)


def fit_one(case, space, solver, ctx, **extra):
    X, Y = case["X"], case["Y"]
    Yfit, kw = pc.fit_args(case["reg"], X, Y)
    if case["y1d"]:
        Yfit = Yfit[:, 0]
        if "W" in kw:
            kw = {"W": kw["W"]}
    p = PCovR(mixing=case["mixing"], n_components=case["k"], space=space, regressor=pc.make_regressor(case["reg"]),
              svd_solver=solver, **extra)
    with ctx.lib("fit[%s,%s]" % (space, solver)):
        p.fit(X, Yfit, **kw)
        T = p.transform(X)
        out = {"T": T, "pred": np.asarray(p.predict(X)).reshape(len(X), -1), "rec": p.inverse_transform(T),
               "sv": np.asarray(p.singular_values_), "ev": np.asarray(p.explained_variance_), "est": p}
    return out


def check(case, ctx):
    X, Y, mix, k = case["X"], case["Y"], case["mixing"], case["k"]
    n, m = X.shape
    reg = case["reg"]
    ctx.cls("shape=" + case["shape"], "lowrank=%s" % case["lowrank"], "mixing=%g" % mix, "reg=" + reg["name"], "solver=" + case["solver"])
    if pc.grey_zone(X):
        ctx.skip("grey-zone eigenvalue of X^T X")
        return
    W = pc.oracle_W(reg, X, Y)
    Yhat = X @ W
    w, U = pc.ktilde_eig(X, Yhat, mix)
    sc = w[0]
    if sc <= 0:
        ctx.skip("zero modified Gram matrix")
        return
    lam_next = w[k] if k < n else 0.0
    gap = (w[k - 1] - lam_next) / sc
    F = fit_one(case, "feature", "full", ctx)
    Sm = fit_one(case, "sample", "full", ctx)
    # ---- reported spectrum: top-k eigenvalues, decreasing, up to one positive constant -------------------------
    big = w[:k] / sc > 1e-8
    for nm, R in (("feature", F), ("sample", Sm)):
        ctx.true("sv-shape", R["sv"].shape == (k,) and R["ev"].shape == (k,), "%s: shapes %s %s" % (nm, R["sv"].shape, R["ev"].shape))
        if R["sv"].shape != (k,):
            continue
        ctx.true("sv-decreasing", bool(np.all(np.diff(R["sv"]) <= 1e-9 * np.sqrt(sc))), "%s singular values not decreasing" % nm)
        if big.any():
            r1 = R["sv"][big] ** 2 / w[:k][big]
            r2 = R["ev"][big] / w[:k][big]
            ctx.true("singular_values~eigenvalues", bool(np.all(np.abs(r1 - r1[0]) <= 1e-6 * abs(r1[0]))) and r1[0] > 0,
                     "%s: singular_values_^2 / lambda not constant: %s" % (nm, r1))
            ctx.true("explained_variance~eigenvalues", bool(np.all(np.abs(r2 - r2[0]) <= 1e-6 * abs(r2[0]))) and r2[0] > 0,
                     "%s: explained_variance_ / lambda not constant: %s" % (nm, r2))
        small = ~big
        if small.any():
            ctx.true("sv-small", bool(np.all(R["sv"][small] ** 2 <= 1e-6 * sc)), "%s: reported value for a null eigenvalue" % nm)
    # ---- spectra of the modified covariance and Gram matrix --------------------------------------------------
    with ctx.lib("pcovr_covariance/kernel"):
        Ct = pcovr_covariance(mix, X, Yhat, rcond=1e-12)
        Kt = pcovr_kernel(mix, X, Yhat)
    wc = np.linalg.eigvalsh(Ct)[::-1]
    wk = np.linalg.eigvalsh(Kt)[::-1]
    q = min(n, m)
    ctx.close("spectrum(C~)==spectrum(K~)", wc[:q], wk[:q], 1e-8 * sc, "non-zero spectra")
    ctx.close("spectrum(K~)==oracle", wk, w, 1e-9 * sc, "pcovr_kernel spectrum vs oracle")
    if len(wc) > q:
        ctx.true("C~-extra-zero", bool(np.all(np.abs(wc[q:]) <= 1e-8 * sc)), "extra eigenvalues of C~ not zero")
    if len(wk) > q:
        ctx.true("K~-extra-zero", bool(np.all(np.abs(wk[q:]) <= 1e-8 * sc)), "extra eigenvalues of K~ not zero")
    # ---- route independence (needs a determined subspace) ----------------------------------------------------
    if w[k - 1] / sc < 1e-8:
        # k exceeds the rank of the modified Gram matrix: the surplus components carry a zero eigenvalue and must stay empty,
        # so the effective r-dimensional subspace (r < k) is still determined and every route has to agree on it
        r = int((w / sc > 1e-6).sum())
        clear = r >= 1 and not np.any((w / sc > 1e-10) & (w / sc <= 1e-6))
        if not clear:
            ctx.skip("retained subspace not separated (gap rule)")
            return
        ctx.cls("k>rank")
        Gr = (U[:, :r] * w[:r]) @ U[:, :r].T
        t_r = 1e-6
        ctx.close("k>rank:TT^T(feature)==oracle", F["T"] @ F["T"].T, Gr, t_r * sc, "feature space, k above the rank")
        ctx.close("k>rank:TT^T(sample)==oracle", Sm["T"] @ Sm["T"].T, Gr, t_r * sc, "sample space, k above the rank")
        ctx.close("k>rank:predictions", F["pred"], Sm["pred"], 1e-5 * max(1.0, float(np.abs(Y).max())), "feature vs sample predictions, k above the rank")
        ctx.close("k>rank:reconstructions", F["rec"], Sm["rec"], 1e-5 * max(1.0, float(np.abs(X).max())), "feature vs sample reconstruction, k above the rank")
        ctx.nontrivial = True
        return
    if gap < 1e-6:
        ctx.skip("retained subspace not separated (gap rule)")
        return
    ctx.nontrivial = True
    tol = 1e-7 / gap
    G = (U[:, :k] * w[:k]) @ U[:, :k].T
    ctx.close("TT^T(feature)==oracle", F["T"] @ F["T"].T, G, tol * sc, "feature space latent Gram matrix")
    ctx.close("TT^T(sample)==oracle", Sm["T"] @ Sm["T"].T, G, tol * sc, "sample space latent Gram matrix")
    ysc = max(1.0, float(np.abs(Y).max()))
    ctx.close("predictions", F["pred"], Sm["pred"], 10 * tol * ysc, "feature vs sample predictions")
    ctx.close("reconstructions", F["rec"], Sm["rec"], 10 * tol * max(1.0, float(np.abs(X).max())), "feature vs sample reconstruction of X")
    # per component, up to sign, where individually separated
    for j in range(k):
        up = (w[j - 1] - w[j]) / sc if j > 0 else 1.0
        dn = (w[j] - (w[j + 1] if j + 1 < n else 0.0)) / sc
        g = min(up, dn)
        if g > 1e-6 and w[j] / sc > 1e-8:
            a, b = F["T"][:, j], Sm["T"][:, j]
            d = min(np.abs(a - b).max(), np.abs(a + b).max())
            if d > (1e-7 / g) * np.sqrt(sc):
                ctx.fail("component-coordinates", "component %d differs between spaces beyond sign: %.3e (gap %.1e)" % (j, d, g))
            ctx.count("components_compared")
    # ---- space='auto' / None and svd_solver='auto' pick one of the routes and must give the same latent space ------------
    for sp in ("auto", None):
        A = fit_one(case, sp, "auto", ctx)
        ctx.close("auto-route:TT^T", A["T"] @ A["T"].T, G, tol * sc, "space=%r, svd_solver='auto' latent Gram matrix" % (sp,))
        ctx.close("auto-route:pred", A["pred"], F["pred"], 10 * tol * ysc, "space=%r predictions" % (sp,))
        want = "feature" if n > m else "sample"
        ctx.true("auto-route:space_", A["est"].space_ == want, "space=%r resolved to %r for a %dx%d matrix" % (sp, A["est"].space_, n, m))
    # ---- truncated solvers -----------------------------------------------------------------------------------
    solver = case["solver"]
    if solver != "full":
        space = case["solver_space"]
        dim = m if space == "feature" else n
        if solver == "arpack" and k >= min(n, m):
            ctx.skip("arpack needs k < min(n, m)")
            return
        if gap <= 1e-3:
            ctx.skip("truncated solver: retained spectrum not separated by 1e-3")
            return
        extra = {"random_state": case["random_state"]}
        if solver == "randomized":
            spans = k + 10 >= dim
            lam_k = w[k - 1]
            lam_out = w[k + 10] if k + 10 < n else 0.0
            decays = (lam_out / lam_k) ** 21 < 1e-10
            if not (spans or decays):
                ctx.skip("randomized: sketch neither spans the matrix nor does the spectrum decay")
                return
            extra["iterated_power"] = 10
        R = fit_one(case, space, solver, ctx, **extra)
        t2 = 1e-6 / gap
        ctx.close("solver-agreement:TT^T", R["T"] @ R["T"].T, G, t2 * sc, "%s (%s space) vs full" % (solver, space))
        ctx.close("solver-agreement:pred", R["pred"], F["pred"], 10 * t2 * ysc, "%s predictions vs full" % solver)
        ctx.close("solver-agreement:sv", R["sv"], F["sv"], 1e-6 * np.sqrt(sc), "%s singular values vs full" % solver)
        ctx.count("solver_comparisons")


def summarize(case):
    return {"shape": list(case["X"].shape), "targets": int(case["Y"].shape[1]), "lowrank": case["lowrank"], "reg": case["reg"],
            "mixing": case["mixing"], "k": case["k"], "solver": case["solver"], "solver_space": case["solver_space"],
            "y1d": case["y1d"], "X_first_row": np.round(case["X"][0], 4).tolist()}

"""C15 - periodic and Mahalanobis distances obey the metric laws under minimum image."""

import numpy as np
from hypothesis import strategies as st
from hypothesis.extra import numpy as hnp
from sklearn.metrics.pairwise import euclidean_distances

from skmatter.metrics import pairwise_mahalanobis_distances as pmd
from skmatter.metrics import periodic_pairwise_euclidean_distances as ppd
from vf import lifecycle as _lc


def _with_history(f):
    """Every call the check makes is preceded by a call with the *same argument objects* (X, Y, cell) temporarily holding
    other values (vf/lifecycle._Swap: overwritten in place, restored bit-exactly): the functions are stateless by contract, so
    a result that depends on an earlier call (a cache keyed by id() or shape) shows up in the oracles below."""
    def g(*a, **k):
        if _lc.enabled():
            with _lc._Swap(a, k) as s:
                _lc._silently(f, *s.args, **s.kwargs)
        return f(*a, **k)
    return g


ppd, pmd = _with_history(ppd), _with_history(pmd)
from vf import gen

ID = "C15"
TITLE = "Periodic and Mahalanobis distances obey the metric laws under minimum image"
TECHNIQUE = 'Hypothesis PBT against a brute-force minimum-image oracle plus metric-law and metamorphic relations'
LEVEL = 'Generated-input exploration: thousands of point sets per run are judged against an independent fractional-reduction oracle and the metric laws (symmetry, triangle inequality over all triples, bounds, squared flag, sklearn equality, rejection of a mismatched cell). No absence claim: strength = the counted distinct non-trivial cases in the evidence.'
BUDGET = {"quick": 1200, "thorough": 25000}
RULE = ("Cases: dimension 1..6, 1..7 x 1..7 points (thorough: up to 16), anisotropic cell "
        "sides e^[-2,2]; coordinates either seeded-uniform up to 1e4 cell lengths away exact multiples of cell/4 (ties at exactly half a cell) or "
        "integer-typed arrays with a non-integer cell, integer image shifts -5..5, "
        "1..5 SPD precision matrices L L^T (full / diagonal / identity / anisotropic with condition number up to 1e6, mixed in one stack).  Oracle: minimum image by fractional reduction "
        "frac-floor / min(f,1-f) on explicit differences (independent of round()). "
        "Non-trivial: >= 2 point pairs and at least one pair whose minimum-image displacement "
        "differs from the free-space displacement; distinct = SHA-1 of the canonical case.")
ASSUMPTIONS = [
    "floating-point tolerance 1e-11*(max|coordinate|+|cell|) on distances (cancellation at large offsets)",
    "precision factors L with cond(L) > 1e4 are skipped (counted)",
]


@st.composite
def strategy_(draw, tier):
    big = tier == "thorough"
    d = draw(st.integers(1, 6))
    n = draw(st.integers(1, 16 if big else 7))
    k = draw(st.integers(1, 16 if big else 7))
    cell = np.exp(draw(hnp.arrays(np.float64, (d,), elements=st.floats(-2, 2, width=32))))
    kind = draw(st.sampled_from(["uniform", "uniform", "quarters", "integers", "float32"]))
    if kind == "uniform":
        mag = 10.0 ** draw(st.floats(0, 4, width=32))
        rng = gen.rng_of(draw)
        X = rng.uniform(-mag, mag, size=(n, d)) * cell
        Y = rng.uniform(-mag, mag, size=(k, d)) * cell
        if draw(st.booleans()):
            # a pair exactly (up to rounding) half a cell apart in some directions
            i = draw(st.integers(0, n - 1))
            j = draw(st.integers(0, k - 1))
            h = draw(hnp.arrays(np.int64, (d,), elements=st.integers(-3, 3)))
            Y[j] = X[i] + 0.5 * cell * h
    elif kind == "float32":
        # single-precision inputs: the result must be the periodic distance of those numbers (to single precision)
        rng = gen.rng_of(draw)
        X = (rng.uniform(-8, 8, size=(n, d)) * cell).astype(np.float32)
        Y = (rng.uniform(-8, 8, size=(k, d)) * cell).astype(np.float32)
    elif kind == "integers":
        # integer-typed coordinates with a non-integer cell: the result must be that of the same numbers as floats
        X = draw(hnp.arrays(np.int64, (n, d), elements=st.integers(-20, 20)))
        Y = draw(hnp.arrays(np.int64, (k, d), elements=st.integers(-20, 20)))
    else:
        X = draw(hnp.arrays(np.int64, (n, d), elements=st.integers(-20, 20))) * (cell / 4)
        Y = draw(hnp.arrays(np.int64, (k, d), elements=st.integers(-20, 20))) * (cell / 4)
    shX = draw(hnp.arrays(np.int64, (n, d), elements=st.integers(-5, 5)))
    shY = draw(hnp.arrays(np.int64, (k, d), elements=st.integers(-5, 5)))
    s = draw(st.integers(1, 5))
    L = gen.normal(draw, (s, d, d)) + 2 * np.eye(d)
    # stacks mix full, diagonal, identity and anisotropic (condition number of the precision up to 1e6) matrices in any order
    for j in range(s):
        pk = draw(st.sampled_from(["full", "full", "identity", "diagonal", "anisotropic"]))
        if pk == "identity":
            L[j] = np.eye(d)
        elif pk == "diagonal":
            L[j] = np.diag(np.exp(gen.normal(draw, (d,))))
        elif pk == "anisotropic":
            L[j] = gen.orthogonal(draw, d) @ np.diag(10.0 ** draw(hnp.arrays(np.float64, (d,), elements=st.floats(-3, 0, width=32))))
    return {"kind": kind, "cell": cell, "X": X, "Y": Y, "shX": shX, "shY": shY, "L": L}


def strategy(tier):
    return strategy_(tier)


def exhaustive(tier):
    """Row counts beyond typical block sizes (1024 / 2048): every row of the result must equal the row computed alone."""
    for j, (n, k, d) in enumerate([(2500, 3, 2), (3, 4100, 3)] if tier == "quick" else [(2500, 3, 2), (3, 4100, 3), (1025, 1025, 1), (5000, 2, 4)]):
        rng = np.random.default_rng(4000 + j)
        cell = np.exp(rng.normal(size=d))
        yield {"kind": "large", "cell": cell, "X": rng.uniform(-30, 30, size=(n, d)) * cell, "Y": rng.uniform(-30, 30, size=(k, d)) * cell,
               "shX": rng.integers(-5, 6, size=(n, d)), "shY": rng.integers(-5, 6, size=(k, d)), "L": rng.normal(size=(1, d, d)) + 2 * np.eye(d)}


EXHAUSTIVE_PARTS = {"quick": ["2 fixed point sets with 2500 / 4100 rows on one side"], "thorough": ["4 fixed point sets with 1025..5000 rows"]}


def check_large(case, ctx):
    cell, X, Y, L = case["cell"], case["X"], case["Y"], case["L"]
    d = X.shape[1]
    tol = 1e-11 * (max(np.abs(X).max(), np.abs(Y).max()) + np.linalg.norm(cell))
    with ctx.lib("periodic-large"):
        D = ppd(X, Y, cell_length=cell)
        M = pmd(X, Y, np.eye(d), cell_length=cell)[0]
    Dref, _, _ = min_image_ref(X, Y, cell)
    ctx.close("oracle(large)", D, Dref, tol, "periodic distances of %d x %d points" % (len(X), len(Y)))
    ctx.close("mahal-identity(large)", M ** 2, Dref ** 2, 8 * tol * (Dref.max() + tol) + 1e-15 * Dref.max() ** 2, "identity-precision Mahalanobis, large input")
    i = len(X) // 2
    with ctx.lib("periodic-row"):
        row = ppd(X[i:i + 1], Y, cell_length=cell)
    ctx.close("row-independence", row[0], D[i], 0.0, "row %d computed alone vs inside the batch" % i)
    ctx.nontrivial = True


def min_image_ref(X, Y, cell):
    diff = X[:, None, :] - Y[None, :, :]
    frac = diff / cell
    frac = frac - np.floor(frac)
    dd = np.minimum(frac, 1.0 - frac) * cell
    return np.sqrt((dd ** 2).sum(-1)), diff, dd


def check(case, ctx):
    if case["kind"] == "large":
        ctx.cls("kind=large")
        return check_large(case, ctx)
    cell, X, Y, L = case["cell"], case["X"], case["Y"], case["L"]
    Xi, Yi = X, Y                      # as supplied (possibly integer-typed)
    X, Y = np.asarray(X, float), np.asarray(Y, float)
    n, d = X.shape
    k = Y.shape[0]
    shX = case["shX"] * cell
    shY = case["shY"] * cell
    maxabs = max(np.abs(X).max(), np.abs(Y).max(), np.abs(X + shX).max(), np.abs(Y + shY).max())
    tol = 1e-11 * (maxabs + np.linalg.norm(cell))
    ctx.cls("kind=" + case["kind"], "d=%d" % d)

    if case["kind"] == "float32":
        with ctx.lib("periodic-float32"):
            D32 = np.asarray(ppd(Xi, Yi, cell_length=cell), float)
            M32 = np.asarray(pmd(Xi, Yi, np.eye(d), cell_length=cell), float)[0]
            P32 = np.asarray(pmd(Xi, Yi, (case["L"][0] @ case["L"][0].T), cell_length=None), float)[0]
    if case["kind"] == "integers":
        with ctx.lib("periodic-int"):
            Dint = ppd(Xi, Yi, cell_length=cell)
            Mint = pmd(Xi, Yi, np.eye(d), cell_length=cell)
    with ctx.lib("periodic"):
        D = ppd(X, Y, cell_length=cell)
        Dt = ppd(Y, X, cell_length=cell)
        Dxx = ppd(X, X, cell_length=cell)
        Dxx_none = ppd(X, cell_length=cell)
        D2 = ppd(X, Y, cell_length=cell, squared=True)
        Dsh = ppd(X + shX, Y + shY, cell_length=cell)
        Dimg = ppd(X, X + shX, cell_length=cell)
        Dfree = ppd(X, Y)
        Dfree2 = ppd(X, Y, squared=True)
    Dref, diff, dd = min_image_ref(X, Y, cell)
    wrap_active = bool(np.any(np.abs(np.abs(diff) - dd) > tol))
    if n * k >= 2 and wrap_active:
        ctx.nontrivial = True
    ctx.cls("wrap_active=%s" % wrap_active)
    half = bool(np.any(np.abs(dd - 0.5 * cell) <= tol))
    ctx.cls("half_cell_pair=%s" % half)

    ctx.true("shape", D.shape == (n, k), "shape %s" % (D.shape,))
    if case["kind"] == "float32":
        t32 = 1e-4 * (maxabs + np.linalg.norm(cell))
        ctx.close("float32-input", D32, Dref, t32, "float32 X/Y vs the minimum-image oracle on the same numbers")
        ctx.close("float32-input(mahalanobis,cell)", M32, Dref, t32 + 1e-3 * Dref.max(), "float32 input, identity precision with cell")
        ref32 = np.sqrt((((X[:, None, :] - Y[None, :, :]) @ case["L"][0]) ** 2).sum(-1))
        ctx.close("float32-input(mahalanobis,whitened)", P32, ref32, 1e-3 * max(1.0, ref32.max()), "float32 input, L L^T precision without cell")
    if case["kind"] == "integers":
        ctx.close("integer-typed-input", Dint, D, tol, "integer-typed X/Y vs the same values as floats")
        ctx.close("integer-typed-input(mahalanobis)", Mint[0] ** 2, D ** 2, 8 * tol * (D.max() + tol) + 1e-15 * D.max() ** 2, "integer-typed input, identity precision")
    ctx.close("oracle", D, Dref, tol, "periodic distance vs minimum-image oracle")
    ctx.true("nonneg", bool(np.all(D >= 0)) and bool(np.all(Dxx >= 0)), "negative distance")
    ctx.close("symmetry", D, Dt.T, tol, "d(X,Y) vs d(Y,X)^T")
    ctx.close("Y=None", Dxx, Dxx_none, 0.0, "Y=None means Y=X")
    ctx.close("self-zero", np.diag(Dxx), np.zeros(n), tol, "d(x,x)")
    ctx.close("image-zero", np.diag(Dimg), np.zeros(n), tol, "distance to own periodic image")
    ctx.close("shift-invariance", Dsh, D, 2 * tol, "after integer image shifts")
    free = np.sqrt((diff ** 2).sum(-1))
    ctx.true("le-free", bool(np.all(D <= free + tol)), "periodic distance exceeds free-space distance")
    ctx.true("le-half-diagonal", bool(np.all(D <= 0.5 * np.linalg.norm(cell) + tol)),
             "distance exceeds half the cell diagonal: max %.6g > %.6g" % (D.max(), 0.5 * np.linalg.norm(cell)))
    # triangle inequality over all triples (x_i, x_l, y_j)
    viol = D[:, None, :] - (Dxx[:, :, None] + D[None, :, :])
    ctx.true("triangle", bool(np.all(viol <= 3 * tol)), "triangle inequality violated by %.3e" % viol.max())
    ctx.close("squared", D2, D ** 2, 2 * tol * (D.max() + tol) + 1e-15 * (D.max() ** 2), "squared=True")
    ctx.close("no-cell", Dfree, euclidean_distances(X, Y), 0.0, "no cell == sklearn euclidean_distances")
    ctx.close("no-cell-squared", Dfree2, euclidean_distances(X, Y, squared=True), 0.0, "no cell squared")

    # --- Mahalanobis ---------------------------------------------------------
    conds = [np.linalg.cond(Lj) for Lj in L]
    if max(conds) > 1e4:
        ctx.skip("ill-conditioned precision factor")
    else:
        P = L @ np.transpose(L, (0, 2, 1))
        with ctx.lib("mahalanobis"):
            M = pmd(X, Y, P)
            M2 = pmd(X, Y, P, squared=True)
            Mi = pmd(X, Y, np.eye(d), cell_length=cell)
            Mi2 = pmd(X, Y, np.eye(d), cell_length=cell, squared=True)
            singles = [pmd(X, Y, P[j]) for j in range(len(P))]
        ctx.true("mahal-shape", M.shape == (len(P), n, k), "shape %s" % (M.shape,))
        for j in range(len(P)):
            ref2 = ((diff @ L[j]) ** 2).sum(-1)
            pn = np.linalg.norm(P[j], 2)
            t2 = 1e-11 * (maxabs ** 2) * pn * d + 1e-300
            ctx.close("mahal-whitened", M2[j], ref2, t2, "squared Mahalanobis vs |L^T(x-y)|^2")
            ctx.close("mahal-sqrt", M[j] ** 2, M2[j], t2, "squared flag")
            ctx.close("mahal-stack-independent", singles[j][0], M[j], 1e-12 * (np.sqrt(ref2.max()) + 1e-300),
                      "stack entry vs single matrix")
        # a cell so roomy that no separation is folded (every |x - y| component < 0.4 cell side, sides of different length)
        # leaves every Mahalanobis distance as it is without a cell, whatever the precision
        roomy = 2.5 * np.abs(diff).reshape(-1, d).max(0) + 1.0 + np.arange(d)
        with ctx.lib("mahalanobis(roomy cell)"):
            Mr2 = pmd(X, Y, P, cell_length=roomy, squared=True)
        for j in range(len(P)):
            ref2 = ((diff @ L[j]) ** 2).sum(-1)
            ctx.close("mahal-roomy-cell", Mr2[j], ref2, 1e-11 * (maxabs ** 2) * np.linalg.norm(P[j], 2) * d + 1e-300,
                      "squared Mahalanobis with a cell that folds nothing vs |L^T(x-y)|^2")
        ctx.true("mahal-nonneg", bool(np.all(M >= 0)) and bool(np.all(np.isfinite(M))), "negative or NaN")
        ctx.close("mahal-identity", Mi[0] ** 2, D ** 2, 2 * tol * (D.max() + tol) * 4 + 1e-15 * D.max() ** 2,
                  "identity precision with cell vs periodic Euclidean")
        ctx.close("mahal-identity-squared", Mi2[0], D ** 2, 2 * tol * (D.max() + tol) * 4 + 1e-15 * D.max() ** 2,
                  "identity precision squared")

    # --- rejected inputs -------------------------------------------------------
    with ctx.rejects("cell-too-long"):
        ppd(X, Y, cell_length=np.r_[cell, 1.0])
    with ctx.rejects("mahal-cell-too-long"):
        pmd(X, Y, np.eye(d), cell_length=np.r_[cell, 1.0])
    if d > 1:
        with ctx.rejects("cell-too-short"):
            ppd(X, Y, cell_length=cell[:-1])
        with ctx.rejects("mahal-cell-too-short"):
            pmd(X, Y, np.eye(d), cell_length=cell[:-1])


def summarize(case):
    return {"kind": case["kind"], "d": int(case["X"].shape[1]), "n": int(case["X"].shape[0]),
            "k": int(case["Y"].shape[0]), "cell": np.round(case["cell"], 4).tolist(),
            "X0": np.round(case["X"][0], 4).tolist(), "Y0": np.round(case["Y"][0], 4).tolist(),
            "shiftX0": case["shX"][0].tolist(), "n_precisions": int(case["L"].shape[0])}

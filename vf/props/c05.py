"""C05 - KernelPCovR agrees with PCovR and its kernel plumbing; scores any held-out set."""

import numpy as np
from hypothesis import strategies as st
from sklearn.decomposition import KernelPCA
from sklearn.kernel_ridge import KernelRidge
from sklearn.linear_model import Ridge

from skmatter.decomposition import KernelPCovR, PCovR
from skmatter.preprocessing import KernelNormalizer
from vf import gen, pc
from vf.core import vary_layout

ID = "C05"
TITLE = "KernelPCovR agrees with PCovR and its kernel plumbing; scores any held-out set"
TECHNIQUE = ("Hypothesis PBT, differential (linear kernel vs sample-space PCovR, named vs precomputed kernel, center=True vs explicit "
             "KernelNormalizer, KernelPCA limit) plus an independent re-computation of the documented score formula; gap-aware")
LEVEL = ("Generated-input exploration over kernels, kernel parameters, centring, regressor variants and held-out sets of every size "
         "(1, <n, =n, >n, the training set itself): projections and predictions of the equivalent routes are compared (sign/gap aware) "
         "including the precomputed-kernel route with center=True and repeated calls on one kernel array, "
         "and score is recomputed from the docstring formula with kernels built by explicit formulas and feature-space centring. "
         "No absence claim: strength = the counted distinct non-trivial cases in the evidence.")
BUDGET = {"quick": 700, "thorough": 18000}
RULE = ("Cases: centred unit-variance X (4..12 x 2..6, thorough to 30 x 10), Y = XB + noise (1..2 targets), mixing in {.1,.5,.9,1}, "
        "k in 1..n, kernels linear / rbf / poly / sigmoid / cosine with gamma in {None,.1,.5,1}, degree {2,3}, coef0 {0,1}; center "
        "False/True; regressors None, KernelRidge(alpha) unfitted / pre-fitted, 'precomputed' (Yhat with and without W); held-out sets "
        "of size 1, <n, =n, >n and the training set itself.  Non-trivial: held-out size != n or a non-linear kernel, with the retained "
        "spectrum separated (gap > 1e-5) so that projections are determined; distinct = SHA-1 of the canonical case.")
ASSUMPTIONS = [
    "projection comparisons are sign- and gap-aware (tolerance 1e-6/gap, skipped below a relative gap of 1e-5)",
    "sigmoid-kernel cases whose modified Gram matrix is not positive semi-definite within 1e-8 are skipped",
    "a pre-fitted KernelRidge is crossed with center=False only (its dual coefficients refer to the uncentred kernel)",
]

KERNELS = ["linear", "rbf", "poly", "sigmoid", "cosine"]


def kernel_fn(A, B, kern, gamma, degree, coef0):
    g = (1.0 / A.shape[1]) if gamma is None else gamma
    if kern == "linear":
        return A @ B.T
    if kern == "rbf":
        d = ((A[:, None, :] - B[None, :, :]) ** 2).sum(-1)
        return np.exp(-g * d)
    if kern == "poly":
        return (g * (A @ B.T) + coef0) ** degree
    if kern == "sigmoid":
        return np.tanh(g * (A @ B.T) + coef0)
    if kern == "cosine":
        na = np.linalg.norm(A, axis=1)
        nb = np.linalg.norm(B, axis=1)
        na = np.where(na == 0, 1.0, na)
        nb = np.where(nb == 0, 1.0, nb)
        return (A / na[:, None]) @ (B / nb[:, None]).T
    raise ValueError(kern)


def centre_train(K):
    n = len(K)
    cm = K.mean(0)
    al = K.mean()
    Kc = K - cm[None, :] - cm[:, None] + al
    scale = np.trace(Kc) / n
    return Kc / scale, cm, al, scale


def centre_test(Kv, cm, al, scale):
    return (Kv - Kv.mean(1)[:, None] - cm[None, :] + al) / scale


def centre_testtest(Kvv, Kv, al, scale):
    r = Kv.mean(1)
    return (Kvv - r[:, None] - r[None, :] + al) / scale


@st.composite
def strategy_(draw, tier):
    big = tier == "thorough"
    n = draw(st.integers(4, 30 if big else 12))
    m = draw(st.integers(2, 10 if big else 6))
    X = pc.centre_norm(gen.normal(draw, (n, m)))
    p = draw(st.integers(1, 2))
    Y = pc.centre_norm(X @ gen.normal(draw, (m, p)) + draw(st.sampled_from([0.1, 0.5, 2.0])) * gen.normal(draw, (n, p)))
    cat = draw(st.sampled_from(["one", "fewer", "equal", "more", "train"]))
    nv = {"one": 1, "fewer": draw(st.integers(1, n - 1)), "equal": n, "more": n + draw(st.integers(1, 5)), "train": n}[cat]
    Xv = X.copy() if cat == "train" else gen.normal(draw, (nv, m)) * draw(st.sampled_from([0.5, 1.0]))
    Yv = Y.copy() if cat == "train" else gen.normal(draw, (nv, p))
    xdtype = None
    if draw(st.integers(0, 5)) == 0:
        # binary fingerprints / small counts stored as bool, uint8 or int8: the same numbers, another dtype
        xdtype = draw(st.sampled_from(["bool", "uint8", "int8"]))
        hi_ = 2 if xdtype == "bool" else 16
        rng = gen.rng_of(draw)
        X = rng.integers(0, hi_, size=(n, m)).astype(float)
        Y = pc.centre_norm(X @ gen.normal(draw, (m, p)) / hi_ + draw(st.sampled_from([0.1, 0.5])) * gen.normal(draw, (n, p)))
        Xv = X.copy() if cat == "train" else rng.integers(0, hi_, size=(nv, m)).astype(float)
        if not np.all(np.isfinite(Y)):
            Y = pc.centre_norm(gen.normal(draw, (n, p)))
        Yv = Y.copy() if cat == "train" else Yv
    kern = draw(st.sampled_from(KERNELS))
    center = draw(st.booleans())
    regs = ["none", "krr", "krr", "pre", "preW"] + ([] if center else ["krr_fitted"])
    return {"X": X, "Y": Y, "Xv": Xv, "Yv": Yv, "heldout": cat, "xdtype": xdtype,
            "mixing": draw(st.sampled_from([0.1, 0.5, 0.9, 1.0])), "k": draw(st.integers(1, n)),
            "kernel": kern, "gamma": draw(st.sampled_from([None, 0.1, 0.5, 1.0])), "degree": draw(st.sampled_from([2, 3])),
            "coef0": draw(st.sampled_from([0.0, 1.0])), "center": center,
            "reg": draw(st.sampled_from(regs)), "alpha": draw(st.sampled_from([1e-3, 0.1, 1.0])),
            "y1d": p == 1 and draw(st.booleans())}


def strategy(tier):
    return strategy_(tier)


def sign_compare(ctx, sub, A, B, w, k, sc, what):
    """Per component up to sign where the eigenvalue is individually separated."""
    n_w = len(w)
    for j in range(k):
        up = (w[j - 1] - w[j]) / sc if j > 0 else 1.0
        dn = (w[j] - (w[j + 1] if j + 1 < n_w else 0.0)) / sc
        g = min(up, dn)
        if g > 1e-5 and w[j] / sc > 1e-8:
            d = min(np.abs(A[:, j] - B[:, j]).max(), np.abs(A[:, j] + B[:, j]).max())
            ctx.count("components_compared")
            scale = max(1.0, float(np.abs(A[:, j]).max()), float(np.abs(B[:, j]).max()))
            if d > (1e-6 / g) * scale:
                ctx.fail(sub, "%s: component %d differs beyond sign by %.3e (gap %.1e)" % (what, j, d, g))
                return False
    return True


def kparams(case):
    return dict(kernel=case["kernel"], gamma=case["gamma"], degree=case["degree"], coef0=case["coef0"])


def check(case, ctx):
    X, Y, Xv, Yv = case["X"], case["Y"], case["Xv"], case["Yv"]
    n, m = X.shape
    mix, k, kern, center, a = case["mixing"], case["k"], case["kernel"], case["center"], case["alpha"]
    kp = kparams(case)
    ctx.cls("kernel=" + kern, "center=%s" % center, "reg=" + case["reg"], "heldout=" + case["heldout"], "mixing=%g" % mix)
    kf = lambda A, B: kernel_fn(A, B, kern, case["gamma"], case["degree"], case["coef0"])  # noqa: E731
    K, Kv, Kvv = kf(X, X), kf(Xv, X), kf(Xv, Xv)
    if center:
        Kc, cm, al, scale = centre_train(K)
        if not np.isfinite(scale) or scale <= 1e-12 or scale <= 1e-6 * np.abs(K).max():      # (saturated kernels: centring cancels to rounding noise)
            ctx.skip("degenerate centred kernel")
            return
        Kvc = centre_test(Kv, cm, al, scale)
        Kvvc = centre_testtest(Kvv, Kv, al, scale)
    else:
        Kc, Kvc, Kvvc = K, Kv, Kvv
    # regressor and the closed-form dual weights it implies
    reg_alpha = 1.0 if case["reg"] == "none" else a      # KernelRidge default alpha
    W = np.linalg.solve(Kc + reg_alpha * np.eye(n), Y)
    if case["reg"] == "krr_fitted":
        W = np.linalg.solve(K + a * np.eye(n), Y)         # fitted on the raw kernel (center is False here)
    Yhat = Kc @ W
    Kt = mix * Kc + (1 - mix) * Yhat @ Yhat.T
    w = np.linalg.eigvalsh(Kt)[::-1]
    sc = abs(w[0])
    if sc == 0 or w[-1] < -1e-8 * sc:
        ctx.skip("modified Gram matrix not PSD (sigmoid kernel)")
        return
    gap = (w[k - 1] - (w[k] if k < n else 0.0)) / sc
    determined = gap > 1e-5 and w[k - 1] / sc > 1e-8

    def build(kernel_args, regressor, center_flag, **extra):
        return KernelPCovR(mixing=mix, n_components=k, svd_solver="full", center=center_flag, regressor=regressor, **kernel_args, **extra)

    if case["reg"] == "none":
        regressor = None
    elif case["reg"] in ("krr", "krr_fitted"):
        regressor = KernelRidge(alpha=a, **kp)
        if case["reg"] == "krr_fitted":
            regressor.fit(X, Y[:, 0] if case.get("y1d") else Y)
            before = regressor.dual_coef_.copy()
    else:
        regressor = "precomputed"
    fit_Y, fit_kw = Y, {}
    if case["reg"] in ("pre", "preW"):
        fit_Y = Yhat
        if case["reg"] == "preW":
            fit_kw = {"W": W}
    if case.get("y1d"):
        fit_Y = fit_Y[:, 0]
        ctx.cls("y1d")
        if "W" in fit_kw and case["k"] % 2:
            fit_kw = {"W": W[:, 0]}          # dual weights of a 1-D target are 1-D (e.g. KernelRidge.dual_coef_)
            ctx.cls("W1d")
    A = build(kp, regressor, center)
    # the named-kernel estimator receives the data in the caller's dtype (bool / uint8 / int8 for fingerprints and counts)
    Xl, Xvl = X, Xv
    if case.get("xdtype"):
        Xl, Xvl = X.astype(case["xdtype"]), Xv.astype(case["xdtype"])
        ctx.cls("xdtype=" + case["xdtype"])
    with ctx.lib("fit"):
        A.fit(Xl, fit_Y, **fit_kw)
        TA, PA = A.transform(Xvl), A.predict(Xvl)
        TA_train = A.transform(Xl)
    # (e) any number of rows
    ctx.true("shapes", TA.shape == (len(Xv), k) and np.asarray(PA).reshape(len(Xv), -1).shape == (len(Xv), Y.shape[1]),
             "transform %s predict %s for %d new samples" % (TA.shape, np.asarray(PA).shape, len(Xv)))
    if case["reg"] == "krr_fitted":
        ctx.close("prefitted-regressor-untouched", regressor.dual_coef_, before, 0.0, "dual_coef_ of the caller's fitted regressor")
    if case["reg"] == "krr":
        ctx.true("unfitted-regressor-stays-unfitted", not hasattr(regressor, "dual_coef_"), "caller's regressor was fitted in place")

    # (b) named kernel == precomputed kernel; center=True == explicit KernelNormalizer ---------------------
    if case["reg"] in ("pre", "preW"):
        regB = "precomputed"
    elif case["reg"] == "krr_fitted":
        regB = KernelRidge(alpha=a, kernel="precomputed").fit(K, Y[:, 0] if case.get("y1d") else Y)
    else:
        regB = KernelRidge(alpha=reg_alpha, kernel="precomputed")
    with ctx.lib("KernelNormalizer"):
        if center:
            kn = KernelNormalizer().fit(K)
            Kc_lib, Kvc_lib = kn.transform(K), kn.transform(Kv)
        else:
            Kc_lib, Kvc_lib = K, Kv
    ctx.close("explicit-centering==oracle", Kvc_lib, Kvc, 1e-9 * max(1.0, np.abs(Kvc).max()), "KernelNormalizer on the test kernel")
    B = build(dict(kernel="precomputed"), regB, False)
    with ctx.lib("fit-precomputed"):
        B.fit(vary_layout(Kc_lib, 1), fit_Y, **fit_kw)
        TB, PB = B.transform(vary_layout(Kvc_lib, 2)), B.predict(vary_layout(Kvc_lib, 3))
    if determined:
        ok = sign_compare(ctx, "named==precomputed:transform", TA, TB, w, k, sc, "named kernel vs precomputed (held-out)")
        ctx.close("named==precomputed:predict", np.asarray(PA).reshape(len(Xv), -1), np.asarray(PB).reshape(len(Xv), -1),
                  (1e-6 / gap) * max(1.0, np.abs(Y).max(), np.abs(Kvc).max()), "predictions, named vs precomputed")
        # latent Gram matrix of the training set equals the oracle's retained part
        evals, evecs = np.linalg.eigh(Kt)
        evals, evecs = evals[::-1], evecs[:, ::-1]
        G = (evecs[:, :k] * evals[:k]) @ evecs[:, :k].T
        ctx.close("TT^T==oracle", TA_train @ TA_train.T, G, (1e-6 / gap) * sc, "training latent Gram matrix vs eigh oracle")
        del ok
    else:
        ctx.skip("retained spectrum not separated (gap rule)")

    # (b') precomputed kernel with center=True: the estimator centres the raw kernels itself; repeated calls on the
    # same caller arrays (transform then predict, score twice) must keep giving the same answers
    if center and case["reg"] in ("none", "krr", "pre", "preW"):
        regC = "precomputed" if case["reg"] in ("pre", "preW") else KernelRidge(alpha=reg_alpha, kernel="precomputed")
        Cc = build(dict(kernel="precomputed"), regC, True)
        Kraw, Kvraw = K.copy(), Kv.copy()
        with ctx.lib("fit-precomputed-centered"):
            Cc.fit(Kraw, fit_Y, **fit_kw)
            TC = Cc.transform(Kvraw)
            PC = Cc.predict(Kvraw)
            TC2 = Cc.transform(Kvraw)
            sC1 = Cc.score(Kraw, Y[:, 0] if case.get("y1d") else Y)
            sC2 = Cc.score(Kraw, Y[:, 0] if case.get("y1d") else Y)
            sA = A.score(Xl, Y[:, 0] if case.get("y1d") else Y)
        ctx.close("precomputed+center:repeatable-transform", TC2, TC, 1e-12 * max(1.0, np.abs(TC).max()), "transform called twice on the same kernel")
        ctx.close("precomputed+center:repeatable-score", sC2, sC1, 1e-10 * max(1.0, abs(sC1)), "score called twice on the training kernel")
        if determined:
            sign_compare(ctx, "named==precomputed+center:transform", TA, TC, w, k, sc, "named kernel vs precomputed kernel with center=True")
            ctx.close("named==precomputed+center:predict", np.asarray(PA).reshape(len(Xv), -1), np.asarray(PC).reshape(len(Xv), -1),
                      (1e-6 / gap) * max(1.0, np.abs(Y).max(), np.abs(Kvc).max()), "predictions, named vs precomputed with center=True")
            ctx.close("named==precomputed+center:train-score", sC1, sA, 1e-6 * max(1.0, abs(sA)) / min(1.0, gap * 1e3 + 1e-300) if gap < 1e-3 else 1e-6 * max(1.0, abs(sA)),
                      "score on the training set, named vs precomputed kernel")
        ctx.count("precomputed_centered_checked")

    # (a) linear kernel == sample-space PCovR with the equivalent ridge ---------------------------------------
    # (PCovR is defined for centred X: not compared on the uncentred fingerprint / count data)
    if kern == "linear" and not center and case["reg"] in ("krr", "none") and determined and not case.get("xdtype"):
        pcv = PCovR(mixing=mix, n_components=min(k, min(n, m)), space="sample",
                    regressor=Ridge(alpha=reg_alpha, fit_intercept=False, tol=1e-12), svd_solver="full")
        if k <= min(n, m):
            with ctx.lib("pcovr-fit"):
                pcv.fit(X, Y)
                TP, PP = pcv.transform(Xv), pcv.predict(Xv)
            sign_compare(ctx, "linear==pcovr:transform", TA, TP, w, k, sc, "linear KernelPCovR vs sample-space PCovR")
            ctx.close("linear==pcovr:predict", np.asarray(PA).reshape(len(Xv), -1), np.asarray(PP).reshape(len(Xv), -1),
                      (1e-6 / gap) * max(1.0, np.abs(Y).max(), np.abs(Kv).max()), "predictions vs PCovR")
            ctx.count("pcovr_comparisons")

    # (c) mixing = 1 on a centred kernel: kernel PCA up to sign and the normaliser's scale ------------------
    if mix == 1.0 and center and determined and k < n:
        g = (1.0 / m) if case["gamma"] is None else case["gamma"]
        kpca = KernelPCA(n_components=k, kernel=kern, gamma=g, degree=case["degree"], coef0=case["coef0"], eigen_solver="dense")
        with ctx.lib("kpca"):
            kpca.fit(X)
            TK = kpca.transform(Xv)
        if TK.shape[1] == k:
            sign_compare(ctx, "kpca-limit", TA, TK / np.sqrt(scale), w, k, sc, "mixing=1 vs KernelPCA / sqrt(scale)")
            ctx.count("kpca_comparisons")

    # (d) score == -(L_kpca + L_krr) from the documented formula -----------------------------------------------
    with ctx.lib("score"):
        s = A.score(Xvl, Yv[:, 0] if case.get("y1d") else Yv)
    tn, tv = Kc @ A.pkt_, Kvc @ A.pkt_
    wmat = tn @ np.linalg.pinv(tn.T @ tn, rcond=1e-12) @ tv.T
    trv = np.trace(Kvvc)
    if abs(trv) > 1e-9 * max(1.0, np.abs(Kvvc).max()) and np.linalg.norm(Yv) > 0:
        Lk = np.trace(Kvvc - 2 * Kvc @ wmat + wmat.T @ Kc @ wmat) / trv
        Ly = np.linalg.norm(Yv - (Kvc @ A.pky_).reshape(Yv.shape)) ** 2 / np.linalg.norm(Yv) ** 2
        sv = np.linalg.svd(tn, compute_uv=False)
        cond_ok = sv[0] > 0 and (sv[sv > 1e-6 * sv[0]].min() > 1e-4 * sv[0])     # pinv cut-off not in play
        if cond_ok:
            ctx.close("score==formula", s, -(Lk + Ly), 1e-6 * max(1.0, abs(Lk) + abs(Ly)), "score on the %s set" % case["heldout"])
            ctx.count("scores_compared")
        else:
            ctx.skip("score: latent coordinates ill-conditioned (pinv cut-off in play)")
    else:
        ctx.skip("score: trace of the test kernel ~ 0")
    if (case["heldout"] not in ("equal", "train") or kern != "linear") and determined:
        ctx.nontrivial = True


def summarize(case):
    return {"shape": list(case["X"].shape), "targets": int(case["Y"].shape[1]), "heldout": case["heldout"], "n_heldout": int(len(case["Xv"])),
            "mixing": case["mixing"], "y1d": case.get("y1d", False), "k": case["k"], "kernel": case["kernel"], "gamma": case["gamma"], "degree": case["degree"],
            "coef0": case["coef0"], "center": case["center"], "reg": case["reg"], "alpha": case["alpha"]}

"""Object-lifecycle variation, applied by the runner to every estimator of the library a check touches.

'For every fitted estimator ...' includes estimators that were cloned, pickled, deep-copied, fitted before on other data,
or used next to another instance of the same class.  None of that may change what a fit / transform / predict computes.  The
harness therefore wraps (from outside, nothing in /repo changes) `fit` and the pure query methods of every estimator class
defined under `skmatter`, and -- as a deterministic function of (case hash, call number) -- surrounds the call the check makes
with one of

  decoy          a clone() of the estimator is fitted first, on the *same array objects* temporarily overwritten in place
                 with different values (rows reversed, floats scaled and shifted) and restored bit-exactly afterwards:
                 exposes module- / class-level state and caches keyed by object identity or shape;
  prefit         (estimators without warm_start) the *same instance* is fitted first on those different values, then on
                 the real ones: exposes state that survives a refit;
  pickle         after the fit the instance's state is replaced by that of pickle.loads(pickle.dumps(est));
  deepcopy       after the fit the instance's state is replaced by that of copy.deepcopy(est);
  query_twice    before transform / predict / score / ... the same method is called on the same instance with different
                 values (result discarded): exposes caches inside the query methods.

Half of the calls are left alone.  The oracle of the check is unchanged: it judges what the estimator finally reports.
Everything the variation itself does is silent: exceptions and warnings of the extra calls are swallowed, and if the extra
call raised, the variation is simply counted as 'lifecycle_extra_raised'.  VERIF_LIFECYCLE=0 switches the layer off.
"""
import collections
import copy
import functools
import importlib
import os
import pickle
import pkgutil
import warnings
import zlib

import numpy as np

QUERY = ("transform", "predict", "score", "score_samples", "inverse_transform", "predict_T", "score_T")
STATE = {"hash": "", "n": 0, "depth": 0, "counts": collections.Counter(), "installed": False}


def enabled():
    return os.environ.get("VERIF_LIFECYCLE", "1") != "0"


def begin_case(case_hash):
    STATE["hash"] = case_hash
    STATE["n"] = 0
    STATE["depth"] = 0
    STATE["counts"] = collections.Counter()


class suspended:
    """For a check that owns module-level state during a call (an injected clock): no extra calls inside."""

    def __enter__(self):
        STATE["depth"] += 1

    def __exit__(self, *exc):
        STATE["depth"] -= 1
        return False


def take_counts():
    c = STATE["counts"]
    STATE["counts"] = collections.Counter()
    return c


def _mode(kind):
    STATE["n"] += 1
    return zlib.crc32(("%s|%d|%s" % (STATE["hash"], STATE["n"], kind)).encode()) % 8


def _other_values(a):
    b = a[::-1].copy()
    if a.dtype.kind == "f":
        b = b * 0.75 + 0.125
    return b


class _Swap:
    """Temporarily overwrite the ndarray arguments in place with different values; restore bit-exactly."""

    def __init__(self, args, kwargs):
        self.args, self.kwargs = list(args), dict(kwargs)
        self.saved = []

    def __enter__(self):
        def conv(v):
            if isinstance(v, np.ndarray) and v.ndim in (1, 2) and v.dtype.kind in "fiu" and v.shape[0] > 1:
                if v.flags.writeable:
                    keep = v.copy()
                    v[...] = _other_values(keep)
                    self.saved.append((v, keep))
                    return v
                return _other_values(v)
            return v
        done = {}
        for i, v in enumerate(self.args):
            if id(v) not in done:
                done[id(v)] = conv(v)
            self.args[i] = done[id(v)]
        for k, v in self.kwargs.items():
            if id(v) not in done:
                done[id(v)] = conv(v)
            self.kwargs[k] = done[id(v)]
        return self

    def __exit__(self, *exc):
        for v, keep in self.saved:
            v[...] = keep
        return False


def _silently(f, *a, **k):
    try:
        with warnings.catch_warnings():
            warnings.simplefilter("ignore")
            with np.errstate(all="ignore"):
                f(*a, **k)
    except Exception as e:  # noqa: BLE001 - the extra call is not judged
        from vf.core import Inconclusive, StopCheck
        if isinstance(e, (Inconclusive, StopCheck)):
            raise   # the runner's watchdog fired inside the extra call: the case is inconclusive, not swallowed
        STATE["counts"]["lifecycle_extra_raised"] += 1


def _replace_state(est, new):
    """The fitted state becomes that of the copy; the constructor hyper-parameters stay the caller's own objects (checks that
    compare them byte- and stride-wise before / after a fit keep their meaning)."""
    try:
        names = set(est.get_params(deep=False))
    except Exception:  # noqa: BLE001
        names = set()
    keep = {k: v for k, v in vars(est).items() if k in names}
    est.__dict__.clear()
    est.__dict__.update(new.__dict__)
    est.__dict__.update(keep)


def _wrap_fit(orig):
    @functools.wraps(orig)
    def fit(self, *args, **kwargs):
        if STATE["depth"] > 0 or not STATE["hash"]:
            return orig(self, *args, **kwargs)
        STATE["depth"] += 1
        try:
            m = _mode("fit")
            warm = bool(getattr(self, "warm_start", False)) or bool(kwargs.get("warm_start", False)) \
                or any(v is True for v in args[2:])
            if m == 1 and warm:
                m = 0
            # an instance that carries harness-side instrumentation (a check replaced one of its methods by a recording
            # wrapper) is only ever accompanied by a decoy: refitting or copying it would feed / detach the recorder
            if m in (1, 2, 3) and any(callable(v) and hasattr(type(self), k) for k, v in vars(self).items()):
                m = 0
            if m == 0:
                from sklearn.base import clone
                try:
                    decoy = clone(self)
                except Exception:  # noqa: BLE001
                    decoy = None
                if decoy is not None:
                    with _Swap(args, kwargs) as s:
                        _silently(orig, decoy, *s.args, **s.kwargs)
                    STATE["counts"]["lifecycle_decoy"] += 1
            elif m == 1:
                try:
                    before = dict(self.get_params(deep=False))
                except Exception:  # noqa: BLE001
                    before = {}
                with _Swap(args, kwargs) as s:
                    _silently(orig, self, *s.args, **s.kwargs)
                    # ... and queried, as a user would between two fits (caches filled by a query must not survive the refit)
                    for q, k in (("score", 2), ("transform", 1), ("predict", 1)):
                        f = getattr(self, q, None)
                        if callable(f) and s.args:
                            _silently(f, *s.args[:k])
                # known finding K2 (VoronoiFPS.fit stores the wall-clock calibrated switching point in the constructor
                # parameter full_fraction, possibly 0, which the next fit rejects) is C09's to report, once; the extra fit
                # must not plant its timing-dependent consequence into other checks: hyper-parameters are put back
                for k, v in before.items():
                    if getattr(self, k, v) is not v:
                        setattr(self, k, v)
                        STATE["counts"]["lifecycle_prefit_param_restored"] += 1
                STATE["counts"]["lifecycle_prefit"] += 1
            out = orig(self, *args, **kwargs)
            if m == 2:
                try:
                    new = pickle.loads(pickle.dumps(self))
                except Exception:  # noqa: BLE001 - user-supplied callables etc. need not pickle
                    new = None
                if new is not None and type(new) is type(self):
                    _replace_state(self, new)
                    STATE["counts"]["lifecycle_pickle"] += 1
            elif m == 3:
                try:
                    new = copy.deepcopy(self)
                except Exception:  # noqa: BLE001
                    new = None
                if new is not None:
                    _replace_state(self, new)
                    STATE["counts"]["lifecycle_deepcopy"] += 1
            return out
        finally:
            STATE["depth"] -= 1
    fit._vf_lifecycle = True
    return fit


def _wrap_query(orig, name):
    @functools.wraps(orig)
    def query(self, *args, **kwargs):
        if STATE["depth"] > 0 or not STATE["hash"]:
            return orig(self, *args, **kwargs)
        STATE["depth"] += 1
        try:
            if _mode(name) < 2 and any(isinstance(v, np.ndarray) for v in list(args) + list(kwargs.values())):
                with _Swap(args, kwargs) as s:
                    _silently(orig, self, *s.args, **s.kwargs)
                STATE["counts"]["lifecycle_query_twice"] += 1
            return orig(self, *args, **kwargs)
        finally:
            STATE["depth"] -= 1
    query._vf_lifecycle = True
    return query


def install():
    if STATE["installed"] or not enabled():
        return
    STATE["installed"] = True
    import skmatter
    from sklearn.base import BaseEstimator
    seen = set()
    for info in pkgutil.walk_packages(skmatter.__path__, "skmatter."):
        if ".datasets" in info.name:
            continue
        try:
            mod = importlib.import_module(info.name)
        except Exception:  # noqa: BLE001
            continue
        for obj in vars(mod).values():
            if not (isinstance(obj, type) and issubclass(obj, BaseEstimator)):
                continue
            if not getattr(obj, "__module__", "").startswith("skmatter") or obj in seen:
                continue
            seen.add(obj)
            d = obj.__dict__
            f = d.get("fit")
            if callable(f) and not getattr(f, "_vf_lifecycle", False):
                setattr(obj, "fit", _wrap_fit(f))
            for q in QUERY:
                g = d.get(q)
                if callable(g) and not isinstance(g, (staticmethod, classmethod, property)) \
                        and not getattr(g, "_vf_lifecycle", False):
                    setattr(obj, q, _wrap_query(g, q))

"""Shared Hypothesis strategies.  Every random choice is a Hypothesis draw; the
'generic' kinds draw a 32-bit seed and expand it with numpy's PCG64, which is
a pure function of the drawn value (so shrinking and replay work)."""

import numpy as np
from hypothesis import strategies as st
from hypothesis.extra import numpy as hnp

SEEDS = st.integers(0, 2**32 - 1)


def rng_of(draw):
    return np.random.default_rng(draw(SEEDS))


def normal(draw, shape):
    return rng_of(draw).normal(size=shape)


def lattice(draw, shape, lo=-3, hi=3):
    return draw(hnp.arrays(np.float64, shape, elements=st.integers(lo, hi).map(float)))


def eighths(draw, shape):
    return draw(hnp.arrays(np.float64, shape, elements=st.integers(-32, 32).map(lambda v: v / 8)))


MATRIX_KINDS = ["generic", "lattice", "eighths", "lowrank", "dup", "clustered", "scaled", "tiny", "huge", "narrowint"]
NARROW_RANGES = {"int8": (-100, 100), "uint8": (0, 250), "int16": (-1000, 1000)}


def narrow_dtype(A):
    """The narrowest of uint8 / int8 / int16 that holds the (integer) values of A, or None."""
    A = np.asarray(A)
    if A.size == 0 or not np.all(A == np.round(A)):
        return None
    lo, hi = A.min(), A.max()
    if lo >= 0 and hi <= 255:
        return "uint8"
    if lo >= -128 and hi <= 127:
        return "int8"
    if lo >= -32768 and hi <= 32767:
        return "int16"
    return None


def matrix(draw, n, m, kind):
    """Matrix of shape (n, m) of the given kind (see DESIGN 2.3)."""
    if kind == "generic":
        return normal(draw, (n, m))
    if kind == "lattice":
        return lattice(draw, (n, m))
    if kind == "eighths":
        return eighths(draw, (n, m))
    if kind == "lowrank":
        r = draw(st.integers(1, max(1, min(n, m) - 1)))
        if draw(st.booleans()):
            A = lattice(draw, (n, r), -2, 2)
            B = lattice(draw, (r, m), -2, 2)
        else:
            A = normal(draw, (n, r))
            B = normal(draw, (r, m))
        return A @ B
    if kind == "dup":
        X = normal(draw, (n, m)) if draw(st.booleans()) else lattice(draw, (n, m))
        X = X.copy()
        ncopies = draw(st.integers(1, max(1, n - 1)))
        for _ in range(ncopies):
            src = draw(st.integers(0, n - 1))
            dst = draw(st.integers(0, n - 1))
            X[dst] = X[src]
        if draw(st.booleans()):
            for _ in range(draw(st.integers(1, max(1, m - 1)))):
                src = draw(st.integers(0, m - 1))
                dst = draw(st.integers(0, m - 1))
                X[:, dst] = X[:, src]
        return X
    if kind == "clustered":
        k = draw(st.integers(1, min(4, n)))
        rng = rng_of(draw)
        centres = rng.normal(size=(k, m)) * 10
        lab = rng.integers(0, k, size=n)
        return centres[lab] + 0.05 * rng.normal(size=(n, m))
    if kind == "scaled":
        rng = rng_of(draw)
        X = rng.normal(size=(n, m))
        ex = draw(hnp.arrays(np.int64, (m,), elements=st.integers(-4, 4)))
        g = draw(st.sampled_from([1e-3, 1.0, 1.0, 1e3]))
        return X * (10.0 ** ex) * g
    if kind == "narrowint":
        # counts / fingerprints stored in a narrow integer type: integer values whose squares and dot products do not fit the type
        # (the check hands them to the estimator in that dtype, the oracle works on the float64 values)
        lo, hi = NARROW_RANGES[draw(st.sampled_from(sorted(NARROW_RANGES)))]
        return rng_of(draw).integers(lo, hi + 1, size=(n, m)).astype(float)
    if kind == "tiny":      # small units (e.g. positions in metres): absolute tolerances in the code must not matter
        base = draw(st.sampled_from(["generic", "dup", "clustered"]))
        return matrix(draw, n, m, base) * draw(st.sampled_from([1e-7, 1e-9, 1e-5]))
    if kind == "huge":
        base = draw(st.sampled_from(["generic", "dup", "lowrank"]))
        return matrix(draw, n, m, base) * draw(st.sampled_from([1e4, 1e6]))
    raise ValueError(kind)


def numerical_rank(X, rtol=1e-9):
    s = np.linalg.svd(np.asarray(X, float), compute_uv=False)
    if s.size == 0 or s[0] == 0:
        return 0
    return int((s > rtol * s[0]).sum())


def orthogonal(draw, d):
    """Random orthogonal d x d matrix (QR of a seeded Gaussian)."""
    A = normal(draw, (d, d))
    Q, R = np.linalg.qr(A)
    return Q * np.sign(np.where(np.diag(R) == 0, 1.0, np.diag(R)))


def permutation(draw, n):
    return np.array(draw(st.permutations(list(range(n)))), dtype=int)

"""Shared generators and oracles for the PCovR family (C03, C04, C05, C14)."""

import numpy as np
from hypothesis import strategies as st
from sklearn.linear_model import LinearRegression, Ridge

from vf import gen

REG_NAMES = ["default", "ridge", "ridge", "lr", "pre", "preW"]


def centre_norm(A):
    A = A - A.mean(0)
    s = np.sqrt((A ** 2).sum() / len(A))
    return A / s if s > 0 else A


@st.composite
def xy(draw, tier, need_fullrank=False, min_n=3, max_targets=3):
    """Centred, normalised X (tall / wide / square, optionally rank-deficient) and Y = XB + noise."""
    hi = 14 if tier == "quick" else 48
    shape = draw(st.sampled_from(["tall", "wide", "square"])) if not need_fullrank else "tall"
    if shape == "tall":
        m = draw(st.integers(2, hi - 2))
        n = draw(st.integers(max(min_n, m + 2), hi))
    elif shape == "wide":
        n = draw(st.integers(min_n, hi - 1))
        m = draw(st.integers(n + 1, hi))
    else:
        n = m = draw(st.integers(min_n, hi))
    lowrank = (not need_fullrank) and min(n, m) > 2 and draw(st.integers(0, 9)) < 3
    if lowrank:
        r = draw(st.integers(1, min(n, m) - 2))
        X = gen.normal(draw, (n, r)) @ gen.normal(draw, (r, m))
    else:
        X = gen.normal(draw, (n, m))
    X = centre_norm(X)
    p = draw(st.integers(1, max_targets))
    noise = draw(st.sampled_from([0.0, 0.1, 0.5, 2.0]))
    Y = X @ gen.normal(draw, (m, p)) + noise * gen.normal(draw, (n, p))
    Y = centre_norm(Y)
    if not np.all(np.isfinite(Y)) or np.abs(Y).max() == 0:
        Y = centre_norm(gen.normal(draw, (n, p)))
    return {"shape": shape, "lowrank": lowrank, "X": X, "Y": Y}


def draw_regressor(draw, fullrank_ok):
    names = REG_NAMES if fullrank_ok else ["default", "ridge", "ridge"]
    name = draw(st.sampled_from(names))
    reg = {"name": name}
    if name == "ridge":
        reg["alpha"] = draw(st.sampled_from([1e-6, 1e-3, 0.1, 1.0]))
    return reg


def make_regressor(reg):
    """(regressor argument for PCovR, closed-form W builder)."""
    name = reg["name"]
    if name == "default":
        return None
    if name == "ridge":
        return Ridge(alpha=reg["alpha"], fit_intercept=False, tol=1e-12)
    if name == "lr":
        return LinearRegression(fit_intercept=False)
    return "precomputed"


def oracle_W(reg, X, Y):
    """Independent closed form of the regression weights."""
    m = X.shape[1]
    name = reg["name"]
    if name == "default":
        return np.linalg.solve(X.T @ X + 1e-6 * np.eye(m), X.T @ Y)
    if name == "ridge":
        return np.linalg.solve(X.T @ X + reg["alpha"] * np.eye(m), X.T @ Y)
    return np.linalg.pinv(X) @ Y


def fit_args(reg, X, Y):
    """What is passed to PCovR.fit for this regressor: (Y argument, kwargs)."""
    W = oracle_W(reg, X, Y)
    if reg["name"] == "pre":
        return X @ W, {}
    if reg["name"] == "preW":
        return X @ W, {"W": W}
    return Y, {}


def ktilde_eig(X, Yhat, mix):
    K = mix * X @ X.T + (1 - mix) * Yhat @ Yhat.T
    w, U = np.linalg.eigh(K)
    return w[::-1], U[:, ::-1]


def grey_zone(X, lo=1e-14, hi=1e-9):
    """True when an eigenvalue of X^T X lies near the absolute cut-off tol=1e-12 of PCovR."""
    w = np.linalg.eigvalsh(X.T @ X)
    return bool(np.any((w > lo) & (w < hi)))


def well_conditioned_tall(X):
    n, m = X.shape
    if n < m + 2:
        return False
    s = np.linalg.svd(X, compute_uv=False)
    return s[-1] > 1e-4 * s[0]
